use vstd::prelude::*;
use std::collections::HashSet;
verus! {
broadcast use vstd::std_specs::hash::group_hash_axioms;

// ---- shims for wit-parser signature types (fields not used by the function dropped)
pub enum FunctionKind {
    Freestanding,
    AsyncFreestanding,
    Method(usize),
    AsyncMethod(usize),
    Static(usize),
    AsyncStatic(usize),
    Constructor(usize),
}
pub struct Function { pub name: String, pub kind: FunctionKind }
#[verifier::external_body]
pub struct Resolve { _p: () }
#[verifier::external_body]
pub struct WorldKey { _p: () }

#[verifier::external_body]
fn opaque_fmt_world_key_name(resolve: &Resolve, key: &WorldKey, name: &String) -> (r: String) { unimplemented!() }


// ---- verbatim items from crates/core/src/async_.rs (derives/cfg_attrs dropped)
pub struct AsyncFilterSet {
    async_: Vec<Async>,
    used_options: HashSet<usize>,
}
struct Async {
    enabled: bool,
    filter: AsyncFilter,
}
enum AsyncFilter {
    All,
    Function(String),
    Import(String),
    Export(String),
}

pub open spec fn wit_async(k: FunctionKind) -> bool {
    match k {
        FunctionKind::AsyncFreestanding | FunctionKind::AsyncMethod(_) | FunctionKind::AsyncStatic(_) => true,
        _ => false,
    }
}

impl AsyncFilterSet {
    pub closed spec fn matches(a: Async, name: Seq<char>, is_import: bool) -> bool {
        match a.filter {
            AsyncFilter::All => true,
            AsyncFilter::Function(s) => s@ == name,
            AsyncFilter::Import(s) => is_import && s@ == name,
            AsyncFilter::Export(s) => !is_import && s@ == name,
        }
    }
    pub closed spec fn first_match(v: Seq<Async>, name: Seq<char>, is_import: bool, from: int) -> int
        decreases v.len() - from
    {
        if from < 0 || from >= v.len() { -1 } else if Self::matches(v[from], name, is_import) { from } else { Self::first_match(v, name, is_import, from + 1) }
    }
    pub closed spec fn list(&self) -> Seq<Async> { self.async_@ }
    pub closed spec fn used(&self) -> Set<usize> { self.used_options@ }
    pub closed spec fn enabled_at(&self, k: int) -> bool { self.async_@[k].enabled }

    /// Returns whether the `func` provided is to be bound `async` or not.
    pub fn is_async(
        &mut self,
        resolve: &Resolve,
        interface: Option<&WorldKey>,
        func: &Function,
        is_import: bool,
    ) -> (r: bool)
        ensures
            final(self).list() == old(self).list(),
            interface.is_none() ==> ({
                let k = Self::first_match(old(self).list(), func.name@, is_import, 0);
                &&& (k >= 0 ==> r == old(self).enabled_at(k) && final(self).used() == old(self).used().insert(k as usize))
                &&& (k < 0 ==> r == wit_async(func.kind) && final(self).used() == old(self).used())
            }),
    {
        let name_to_test = match interface {
            Some(key) => opaque_fmt_world_key_name(resolve, key, &func.name),
            None => func.name.clone(),
        };
        let mut i = 0;
        while i < self.async_.len()
            invariant
                i <= self.async_.len(),
                interface.is_none() ==> name_to_test@ == func.name@,
                self.async_@ == old(self).async_@,
                self.used_options@ == old(self).used_options@,
                Self::first_match(old(self).async_@, name_to_test@, is_import, 0) == Self::first_match(old(self).async_@, name_to_test@, is_import, i as int),
            decreases self.async_.len() - i
        {
            let opt = &self.async_[i];
            let name = match &opt.filter {
                AsyncFilter::All => {
                    self.used_options.insert(i);
                    return opt.enabled;
                }
                AsyncFilter::Function(s) => s,
                AsyncFilter::Import(s) => {
                    if !is_import {
                        { i += 1; continue; }
                    }
                    s
                }
                AsyncFilter::Export(s) => {
                    if is_import {
                        { i += 1; continue; }
                    }
                    s
                }
            };
            if *name == name_to_test {
                self.used_options.insert(i);
                return opt.enabled;
            }
            i += 1;
        }

        match &func.kind {
            FunctionKind::Freestanding
            | FunctionKind::Method(_)
            | FunctionKind::Static(_)
            | FunctionKind::Constructor(_) => false,
            FunctionKind::AsyncFreestanding
            | FunctionKind::AsyncMethod(_)
            | FunctionKind::AsyncStatic(_) => true,
        }
    }
}
} // verus!
fn main() {}
