use vstd::prelude::*;
use std::collections::HashSet;
verus! {
broadcast use vstd::std_specs::hash::group_hash_axioms;

pub enum AsyncFilter {
    All,
    Function(String),
    Import(String),
    Export(String),
}
pub struct Async {
    pub enabled: bool,
    pub filter: AsyncFilter,
}
pub struct AsyncFilterSet {
    pub async_: Vec<Async>,
    pub used_options: HashSet<usize>,
}

// spec: does directive `a` match (name, is_import)?
pub open spec fn matches(a: Async, name: Seq<char>, is_import: bool) -> bool {
    match a.filter {
        AsyncFilter::All => true,
        AsyncFilter::Function(s) => s@ == name,
        AsyncFilter::Import(s) => is_import && s@ == name,
        AsyncFilter::Export(s) => !is_import && s@ == name,
    }
}
pub open spec fn first_match(v: Seq<Async>, name: Seq<char>, is_import: bool, from: int) -> int
    decreases v.len() - from
{
    if from < 0 || from >= v.len() { -1 } else if matches(v[from], name, is_import) { from } else { first_match(v, name, is_import, from + 1) }
}

impl AsyncFilterSet {
    pub fn is_async_core(&mut self, name_to_test: String, is_import: bool, wit_async: bool) -> (r: bool)
        ensures
            ({
                let k = first_match(old(self).async_@, name_to_test@, is_import, 0);
                &&& (k >= 0 ==> r == old(self).async_@[k].enabled && final(self).used_options@ == old(self).used_options@.insert(k as usize))
                &&& (k < 0 ==> r == wit_async && final(self).used_options@ == old(self).used_options@)
            }),
            final(self).async_@ == old(self).async_@,
    {
        let mut i: usize = 0;
        while i < self.async_.len()
            invariant
                i <= self.async_.len(),
                self.async_@ == old(self).async_@,
                self.used_options@ == old(self).used_options@,
                first_match(old(self).async_@, name_to_test@, is_import, 0) == first_match(old(self).async_@, name_to_test@, is_import, i as int),
            decreases self.async_.len() - i
        {
            let opt = &self.async_[i];
            let name = match &opt.filter {
                AsyncFilter::All => {
                    let e = opt.enabled;
                    self.used_options.insert(i);
                    return e;
                }
                AsyncFilter::Function(s) => s,
                AsyncFilter::Import(s) => {
                    if !is_import {
                        i += 1;
                        continue;
                    }
                    s
                }
                AsyncFilter::Export(s) => {
                    if is_import {
                        i += 1;
                        continue;
                    }
                    s
                }
            };
            if *name == name_to_test {
                let e = opt.enabled;
                self.used_options.insert(i);
                return e;
            }
            i += 1;
        }
        wit_async
    }
}
} // verus!
fn main() {}
