use vstd::prelude::*;
use std::collections::HashMap;
verus! {

pub type TypeId = usize;

pub proof fn axiom_typeid_key_model() {}

broadcast use vstd::std_specs::hash::group_hash_axioms;

pub assume_specification<T: Copy>[ Option::<&T>::copied ](o: Option<&T>) -> (r: Option<T>)
    ensures r == (match o { Some(x) => Some(*x), None => None::<T> });


pub open spec fn wf_map(m: Map<TypeId, TypeId>) -> bool {
    forall|k: TypeId| #[trigger] m.contains_key(k) ==> m[k] < k
}

pub open spec fn root_of(m: Map<TypeId, TypeId>, id: TypeId) -> TypeId
    decreases id
{
    if wf_map(m) && m.contains_key(id) { root_of(m, m[id]) } else { id }
}

// root is a fixed point and is <= id
pub proof fn lemma_root_props(m: Map<TypeId, TypeId>, id: TypeId)
    requires wf_map(m),
    ensures
        root_of(m, id) <= id,
        !m.contains_key(root_of(m, id)),
        root_of(m, root_of(m, id)) == root_of(m, id),
    decreases id
{
    if m.contains_key(id) {
        lemma_root_props(m, m[id]);
    }
}

// path compression: pointing `a` (a non-root) directly at its root changes no root
pub proof fn lemma_compress(m: Map<TypeId, TypeId>, a: TypeId, x: TypeId)
    requires wf_map(m), m.contains_key(a),
    ensures
        wf_map(m.insert(a, root_of(m, a))),
        root_of(m.insert(a, root_of(m, a)), x) == root_of(m, x),
    decreases x
{
    let r = root_of(m, a);
    let m2 = m.insert(a, r);
    lemma_root_props(m, a);
    lemma_root_props(m, m[a]);
    assert(r < a);
    assert(wf_map(m2)) by {
        assert forall|k: TypeId| #[trigger] m2.contains_key(k) implies m2[k] < k by {
            if k == a { } else { assert(m.contains_key(k)); }
        }
    }
    if x == a {
        // root_of(m2, a) = root_of(m2, r); r is a root in m, and r != a, so still a root in m2
        assert(!m.contains_key(r));
        assert(!m2.contains_key(r));
        assert(root_of(m2, r) == r);
        assert(root_of(m2, a) == root_of(m2, m2[a]));
    } else if m.contains_key(x) {
        lemma_compress(m, a, m[x]);
        assert(m2.contains_key(x) && m2[x] == m[x]);
    } else {
        assert(!m2.contains_key(x));
    }
}

// linking root `hi` under root `lo` (lo < hi) moves exactly hi's class
pub proof fn lemma_link(m: Map<TypeId, TypeId>, lo: TypeId, hi: TypeId, x: TypeId)
    requires wf_map(m), !m.contains_key(lo), !m.contains_key(hi), lo < hi,
    ensures
        wf_map(m.insert(hi, lo)),
        root_of(m.insert(hi, lo), x) == (if root_of(m, x) == hi { lo } else { root_of(m, x) }),
    decreases x
{
    let m2 = m.insert(hi, lo);
    assert(wf_map(m2)) by {
        assert forall|k: TypeId| #[trigger] m2.contains_key(k) implies m2[k] < k by {
            if k == hi { } else { assert(m.contains_key(k)); }
        }
    }
    if x == hi {
        assert(!m2.contains_key(lo));
        assert(root_of(m2, lo) == lo);
        assert(root_of(m2, hi) == root_of(m2, m2[hi]));
        assert(root_of(m, hi) == hi);
    } else if m.contains_key(x) {
        lemma_link(m, lo, hi, m[x]);
        assert(m2.contains_key(x) && m2[x] == m[x]);
    } else {
        assert(!m2.contains_key(x));
        assert(root_of(m, x) == x);
    }
}

pub struct UnionFind {
    parent: HashMap<TypeId, TypeId>,
}

impl UnionFind {
    pub closed spec fn view(&self) -> Map<TypeId, TypeId> { self.parent@ }

    fn find(&mut self, id: TypeId) -> (r: TypeId)
        requires wf_map(old(self).view()),
        ensures
            wf_map(final(self).view()),
            r == root_of(old(self).view(), id),
            forall|x: TypeId| root_of(final(self).view(), x) == root_of(old(self).view(), x),
        decreases id
    {
        proof { axiom_typeid_key_model(); }
        // Path compression
        let parent = self.parent.get(&id).copied().unwrap_or(id);
        if parent != id {
            let ghost g = self.parent@;
            let o = self.parent.get(&id);
            assert(o.is_some() ==> g.contains_key(id));
            assert(o.is_none() ==> !g.contains_key(id));
            assert(parent != id);
            assert(o.is_some());
            assert(*o.unwrap() == parent);
            assert(self.parent@.contains_key(id) && self.parent@[id] == parent);
            let ghost m0 = self.parent@;
            let root = self.find(parent);
            let ghost m1 = self.parent@;
            proof {
                // id is still a non-root in m1 with the same class root
                assert(root_of(m1, id) == root_of(m0, id));
                lemma_root_props(m0, parent);
                assert(m1.contains_key(id)) by {
                    // if id were a root in m1, root_of(m1,id)==id, but root_of(m0,id)=root<id
                    lemma_root_props(m0, id);
                    if !m1.contains_key(id) { assert(root_of(m1, id) == id); assert(root_of(m0, id) == root_of(m0, parent)); }
                }
                assert(root == root_of(m1, id));
                assert forall|x: TypeId| root_of(m1.insert(id, root), x) == root_of(m0, x) by {
                    lemma_compress(m1, id, x);
                }
                lemma_compress(m1, id, id);
            }
            self.parent.insert(id, root);
            root
        } else {
            proof {
                if self.parent@.contains_key(id) { assert(self.parent@[id] < id); }
            }
            id
        }
    }

    fn union(&mut self, a: TypeId, b: TypeId)
        requires wf_map(old(self).view()),
        ensures
            wf_map(final(self).view()),
            forall|x: TypeId| {
                let ra = root_of(old(self).view(), a);
                let rb = root_of(old(self).view(), b);
                let rx = root_of(old(self).view(), x);
                let m = if ra <= rb { ra } else { rb };
                #[trigger] root_of(final(self).view(), x) == (if rx == ra || rx == rb { m } else { rx })
            },
    {
        let ghost m0 = self.parent@;
        let ra = self.find(a);
        let rb = self.find(b);
        let ghost m2 = self.parent@;
        proof {
            lemma_root_props(m0, a);
            lemma_root_props(m0, b);
            lemma_root_props(m2, a);
            lemma_root_props(m2, b);
            assert(ra == root_of(m2, a) && rb == root_of(m2, b));
            assert forall|x: TypeId| true implies
                root_of(m2.insert(rb, ra), x) == (if root_of(m2, x) == rb { ra } else { root_of(m2, x) }) || !(ra < rb) by {
                if ra < rb { lemma_link(m2, ra, rb, x); }
            }
            assert forall|x: TypeId| true implies
                root_of(m2.insert(ra, rb), x) == (if root_of(m2, x) == ra { rb } else { root_of(m2, x) }) || !(rb < ra) by {
                if rb < ra { lemma_link(m2, rb, ra, x); }
            }
            if ra < rb { lemma_link(m2, ra, rb, a); }
            if rb < ra { lemma_link(m2, rb, ra, a); }
        }
        if ra != rb {
            // Use smaller id as root for determinism
            if ra < rb {
                self.parent.insert(rb, ra);
            } else {
                self.parent.insert(ra, rb);
            }
        }
    }
}

} // verus!
fn main() {}
