// Mounted as `crate::rt::async_support::verif` under --cfg bytecodealliance_wit_bindgen_verif
// (hook: last lines of crates/guest-rust/src/rt/async_support.rs).  Harness code only: nothing
// here re-types a function of /repo; every harness drives the real items of the parent modules.
#![allow(dead_code, unused_imports, unused_variables, static_mut_refs, unused_unsafe, unused_mut)]
#![allow(clippy::all)]

/// assertion that keeps its message under Kani (core's assert! loses it: "placeholder message") and panics natively
macro_rules! vassert {
    ($c:expr) => {{
        #[cfg(kani)]
        kani::assert($c, stringify!($c));
        #[cfg(not(kani))]
        assert!($c);
    }};
    ($c:expr, $m:literal) => {{
        #[cfg(kani)]
        kani::assert($c, $m);
        #[cfg(not(kani))]
        assert!($c, $m);
    }};
}

#[path = "/verif/harness/host.rs"]
pub mod host;
#[path = "/verif/harness/c18.rs"]
mod c18;

/// vacuity canary: must FAIL (run by every check that uses this crate's harnesses)
#[cfg(kani)]
#[kani::proof]
pub fn verif_canary_must_fail() {
    let x: u8 = kani::any();
    assert!(x != 7);
}

/// native replay of Kani counterexamples (written by vlib/kani.py from --concrete-playback=print)
#[cfg(bytecodealliance_wit_bindgen_verif_native)]
#[path = "/verif/.build/playback/tests.rs"]
mod playback;
#[path = "/verif/harness/c21.rs"]
mod c21;
#[path = "/verif/harness/c19.rs"]
mod c19;
#[path = "/verif/harness/c20.rs"]
mod c20;
#[path = "/verif/harness/c24.rs"]
pub mod c24;
#[path = "/verif/harness/c22.rs"]
pub mod c22;
#[cfg(feature = "inter-task-wakeup")]
#[path = "/verif/harness/c23.rs"]
pub mod c23;
// C08: the real Rust generator's output for kani/rustgen_async/probe.wit, mounted only when the C08 check asks for it
#[cfg(bytecodealliance_wit_bindgen_verif_c08)]
#[path = "/verif/harness/c08.rs"]
pub mod c08;
#[cfg(kani)]
#[path = "/verif/harness/btmodel.rs"]
pub mod btmodel;
