//! Trusted two-slot finite map standing in for `BTreeMap<u32, CabiWaitable>` in the executor UNDER KANI ONLY
//! (hook: `use self::verif::btmodel::SmallMap as BTreeMap` in async_support.rs, cfg(all(verif, kani))).
//! Measured: one `BTreeMap::insert` + `remove` of a single element exhausts CBMC's memory after 3.5 min, so the
//! real B-tree cannot be part of any executor harness.  Assumption listed in the evidence: BTreeMap behaves
//! as a finite map with insert / remove / is_empty; at most two waitables are registered at once.
pub struct SmallMap<K, V> {
    slots: [Option<(K, V)>; 2],
}
impl<K, V> Default for SmallMap<K, V> {
    fn default() -> Self {
        SmallMap { slots: [None, None] }
    }
}
impl<K: PartialEq, V> SmallMap<K, V> {
    pub fn insert(&mut self, key: K, value: V) -> Option<V> {
        if let Some((k, _)) = &self.slots[0] {
            if *k == key {
                return self.slots[0].replace((key, value)).map(|(_, v)| v);
            }
        }
        if let Some((k, _)) = &self.slots[1] {
            if *k == key {
                return self.slots[1].replace((key, value)).map(|(_, v)| v);
            }
        }
        if self.slots[0].is_none() {
            self.slots[0] = Some((key, value));
            return None;
        }
        if self.slots[1].is_none() {
            self.slots[1] = Some((key, value));
            return None;
        }
        panic!("SmallMap: more than two waitables registered at once (model bound)");
    }
    pub fn remove(&mut self, key: &K) -> Option<V> {
        if matches!(&self.slots[0], Some((k, _)) if k == key) {
            return self.slots[0].take().map(|(_, v)| v);
        }
        if matches!(&self.slots[1], Some((k, _)) if k == key) {
            return self.slots[1].take().map(|(_, v)| v);
        }
        None
    }
    pub fn is_empty(&self) -> bool {
        self.slots[0].is_none() && self.slots[1].is_none()
    }
    pub fn len(&self) -> usize {
        self.slots[0].is_some() as usize + self.slots[1].is_some() as usize
    }
    pub fn contains_key(&self, key: &K) -> bool {
        matches!(&self.slots[0], Some((k, _)) if k == key) || matches!(&self.slots[1], Some((k, _)) if k == key)
    }
}
