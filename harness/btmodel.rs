//! Trusted two-slot finite map standing in for `BTreeMap<u32, CabiWaitable>` in the executor UNDER KANI ONLY
//! (hook: `use self::verif::btmodel::SmallMap as BTreeMap` in async_support.rs, cfg(all(verif, kani))).
//! Measured: one `BTreeMap::insert` + `remove` of a single element exhausts CBMC's memory after 3.5 min, so the
//! real B-tree cannot be part of any executor harness.  Assumption listed in the evidence: BTreeMap behaves
//! as a finite map with insert / remove / is_empty; at most two waitables are registered at once.
//!
//! The two slots live in a `static`, not inside the map value (which sits in an `Arc` allocation): CBMC only
//! constant-propagates a stored function pointer out of a statically typed object, and without that the call
//! `(c.callback)(c.callback_ptr, code)` in `deliver_waitable_event` fans out over every address-taken two-argument
//! function of the program (the `core::fmt` machinery) and does not finish.  Consequence, also listed: the executor
//! harnesses build ONE task at a time (a fresh `SmallMap::default()` empties the slots).
use core::marker::PhantomData;

pub trait StaticSlots: Sized + 'static {
    fn slots() -> &'static mut [Option<(u32, Self)>; 2];
}
static mut CABI_SLOTS: [Option<(u32, super::super::CabiWaitable)>; 2] = [None, None];
impl StaticSlots for super::super::CabiWaitable {
    fn slots() -> &'static mut [Option<(u32, Self)>; 2] {
        unsafe { &mut *core::ptr::addr_of_mut!(CABI_SLOTS) }
    }
}

pub struct SmallMap<K, V> {
    _m: PhantomData<(K, V)>,
}
impl<V: StaticSlots> Default for SmallMap<u32, V> {
    fn default() -> Self {
        let s = V::slots();
        s[0] = None;
        s[1] = None;
        SmallMap { _m: PhantomData }
    }
}
impl<V: StaticSlots> SmallMap<u32, V> {
    pub fn insert(&mut self, key: u32, value: V) -> Option<V> {
        let slots = V::slots();
        if let Some((k, _)) = &slots[0] {
            if *k == key {
                return slots[0].replace((key, value)).map(|(_, v)| v);
            }
        }
        if let Some((k, _)) = &slots[1] {
            if *k == key {
                return slots[1].replace((key, value)).map(|(_, v)| v);
            }
        }
        if slots[0].is_none() {
            slots[0] = Some((key, value));
            return None;
        }
        if slots[1].is_none() {
            slots[1] = Some((key, value));
            return None;
        }
        panic!("SmallMap: more than two waitables registered at once (model bound)");
    }
    pub fn remove(&mut self, key: &u32) -> Option<V> {
        let slots = V::slots();
        if matches!(&slots[0], Some((k, _)) if k == key) {
            return slots[0].take().map(|(_, v)| v);
        }
        if matches!(&slots[1], Some((k, _)) if k == key) {
            return slots[1].take().map(|(_, v)| v);
        }
        None
    }
    pub fn is_empty(&self) -> bool {
        let slots = V::slots();
        slots[0].is_none() && slots[1].is_none()
    }
    pub fn len(&self) -> usize {
        let slots = V::slots();
        slots[0].is_some() as usize + slots[1].is_some() as usize
    }
    pub fn contains_key(&self, key: &u32) -> bool {
        let slots = V::slots();
        matches!(&slots[0], Some((k, _)) if k == key) || matches!(&slots[1], Some((k, _)) if k == key)
    }
}
