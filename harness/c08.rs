//! C08 (partial, bounded) — async exports and imports as the Rust generator binds them, running on the real runtime.
//! `gen` is the output of the REAL Rust generator for /verif/kani/rustgen_async/probe.wit (`--runtime-path crate::rt`, so that
//! the generated code resolves the runtime inside this crate), with rule R1 (native import stand-ins call `mockhost` below).
//! The runtime's canonical built-ins are replaced by the mock host of host.rs through kani::stub, as in C22.
use super::c22;
use super::host::{self, h};
use alloc::string::String;
use core::future::Future;
use core::pin::Pin;
use core::task::{Context, Poll};

#[path = "/verif/.build/c08-mount/probe.rs"]
#[allow(unused, non_snake_case, clippy::all)]
pub mod r#gen;

pub const P: usize = core::mem::size_of::<usize>();
pub static mut TASK_RETURNS: u32 = 0;
pub static mut RETURNED_U32: u32 = 0;
pub static mut RETURNED_STR: (usize, usize) = (0, 0);
pub static mut RETURNED_BYTES: [u8; 2] = [0; 2];
pub static mut IMPORT_CALLS: u32 = 0;
pub static mut IMPORT_ARG: u32 = 0;
pub static mut IMPORT_STR_LEN: usize = 0;
pub static mut IMPORT_BYTES: [u8; 2] = [0; 2];
pub static mut IMPORT_STATUS: u32 = 2; // STATUS_RETURNED, no handle
pub static mut IMPORT_ANSWER: u32 = 0;
pub static mut IMPORT_ANSWER_STR: (usize, usize) = (0, 0);
pub static mut TASK_RETURN_BEFORE_USER_DONE: bool = false;
pub static mut USER_DONE: bool = false;

pub mod mockhost {
    use super::*;
    // task.return of the two exports: core signature = the flattened result
    pub unsafe fn _export__root___task_return_compute(v: i32) {
        unsafe {
            TASK_RETURNS += 1;
            RETURNED_U32 = v as u32;
            if !USER_DONE {
                TASK_RETURN_BEFORE_USER_DONE = true;
            }
        }
    }
    pub unsafe fn _export__root___task_return_shout(p: *mut u8, len: usize) {
        unsafe {
            TASK_RETURNS += 1;
            RETURNED_STR = (p as usize, len);
            if len >= 1 {
                RETURNED_BYTES[0] = *p;
            }
            if len >= 2 {
                RETURNED_BYTES[1] = *p.add(1);
            }
        }
    }
    // [async-lower] imports: (flat params.., results pointer) -> status | handle << 4
    pub unsafe fn verif_asy_imp___async_lower_fetch(a: i32, results: *mut u8) -> i32 {
        unsafe {
            IMPORT_CALLS += 1;
            IMPORT_ARG = a as u32;
            if IMPORT_STATUS == 2 {
                core::ptr::write_unaligned(results.cast::<u32>(), IMPORT_ANSWER);
            }
            IMPORT_STATUS as i32
        }
    }
    pub unsafe fn verif_asy_imp___async_lower_greet(p: *mut u8, len: usize, results: *mut u8) -> i32 {
        unsafe {
            IMPORT_CALLS += 1;
            IMPORT_STR_LEN = len;
            if len >= 1 {
                IMPORT_BYTES[0] = *p;
            }
            if len >= 2 {
                IMPORT_BYTES[1] = *p.add(1);
            }
            if IMPORT_STATUS == 2 {
                core::ptr::write_unaligned(results.cast::<usize>(), IMPORT_ANSWER_STR.0);
                core::ptr::write_unaligned(results.add(P).cast::<usize>(), IMPORT_ANSWER_STR.1);
            }
            IMPORT_STATUS as i32
        }
    }
}

// ---- the user's exports
pub struct Impl;
pub static mut SEEN: u32 = 0;
pub static mut RET: u32 = 0;
pub static mut SEEN_STR_LEN: usize = 0;
pub static mut SEEN_STR_BYTES: [u8; 2] = [0; 2];
impl r#gen::Guest for Impl {
    async fn compute(a: u32) -> u32 {
        unsafe {
            SEEN = a;
            USER_DONE = true;
            RET
        }
    }
    async fn shout(s: String) -> String {
        unsafe {
            SEEN_STR_LEN = s.len();
            if s.len() >= 1 {
                SEEN_STR_BYTES[0] = s.as_bytes()[0];
            }
            if s.len() >= 2 {
                SEEN_STR_BYTES[1] = s.as_bytes()[1];
            }
            USER_DONE = true;
        }
        s
    }
}

fn reset() {
    host::reset();
    unsafe {
        TASK_RETURNS = 0;
        IMPORT_CALLS = 0;
        USER_DONE = false;
        TASK_RETURN_BEFORE_USER_DONE = false;
        IMPORT_STATUS = 2;
    }
}

macro_rules! c08_harness {
    ($(#[$m:meta])* fn $name:ident() $body:block) => {
        #[cfg_attr(kani, kani::proof)]
        #[cfg_attr(kani, kani::unwind(9))]
        #[cfg_attr(kani, kani::stub(crate::rt::async_support::cabi::wasip3_task_set, crate::rt::async_support::verif::host::wasip3_task_set))]
        #[cfg_attr(kani, kani::stub(crate::rt::async_support::waitable_set::new, crate::rt::async_support::verif::host::waitable_set_new))]
        #[cfg_attr(kani, kani::stub(crate::rt::async_support::waitable_set::drop, crate::rt::async_support::verif::host::waitable_set_drop))]
        #[cfg_attr(kani, kani::stub(crate::rt::async_support::waitable_set::join, crate::rt::async_support::verif::host::waitable_join))]
        #[cfg_attr(kani, kani::stub(crate::rt::async_support::waitable_set::wait, crate::rt::async_support::verif::host::waitable_set_wait))]
        #[cfg_attr(kani, kani::stub(crate::rt::async_support::waitable_set::poll, crate::rt::async_support::verif::host::waitable_set_poll))]
        #[cfg_attr(kani, kani::stub(crate::rt::async_support::subtask::cancel, crate::rt::async_support::verif::host::subtask_cancel))]
        #[cfg_attr(kani, kani::stub(crate::rt::async_support::subtask::drop, crate::rt::async_support::verif::host::subtask_drop))]
        #[cfg_attr(kani, kani::stub(std::io::_eprint, crate::rt::async_support::verif::c22::no_eprint))]
        #[cfg_attr(kani, kani::stub(crate::rt::async_support::task_state::get, crate::rt::async_support::verif::c22::ctx_get))]
        #[cfg_attr(kani, kani::stub(crate::rt::async_support::task_state::set, crate::rt::async_support::verif::c22::ctx_set))]
        #[cfg_attr(kani, kani::stub(alloc::string::String::from_utf8, crate::rt::async_support::verif::c08::from_utf8_stub))]
        $(#[$m])*
        pub fn $name() $body
    };
}
/// std's UTF-8 validation is trusted (see C05): only ASCII is sent
pub fn from_utf8_stub(v: alloc::vec::Vec<u8>) -> Result<String, alloc::string::FromUtf8Error> {
    Ok(unsafe { String::from_utf8_unchecked(v) })
}

// 1. async export, scalar: the user function gets the value a sync binding would lift; its result is reported through
//    task.return exactly once (after the user's work finished), as the canonical lowering; no cancellation signal; EXIT.
c08_harness! { fn c08_async_export_scalar_result_through_task_return_once() {
    #[cfg(kani)]
    {
        reset();
        let x: i32 = kani::any();
        let r: u32 = kani::any();
        unsafe {
            RET = r;
            let code = r#gen::_export_compute_cabi::<Impl>(x);
            vassert!(SEEN == x as u32, "C08: the async export receives the value the sync binding would lift");
            vassert!(TASK_RETURNS == 1 && RETURNED_U32 == r, "C08: the result is reported through task.return exactly once, canonically lowered");
            vassert!(!TASK_RETURN_BEFORE_USER_DONE, "C08: task.return happens after the user's work finished");
            vassert!(h().task_cancels == 0, "C08: a finished task does not signal cancellation");
            vassert!(code == 0, "C08: nothing pending => EXIT");
            vassert!(h().ctx.is_null(), "C08: the task state is released");
        }
    }
}}

// 2. async export, string: the bytes arrive unchanged and the result string is handed to task.return as (pointer, length)
//    of exactly the returned bytes, once.
#[cfg(kani)]
fn export_string(n: usize) {
    {
        reset();
        let b: [u8; 2] = kani::any();
        kani::assume(b[0] < 0x80 && b[1] < 0x80);
        unsafe {
            let p: *mut u8 = if n == 0 { 1 as *mut u8 } else {
                let p = alloc::alloc::alloc(core::alloc::Layout::from_size_align(n, 1).unwrap());
                kani::assume(!p.is_null());
                *p = b[0];
                if n == 2 { *p.add(1) = b[1]; }
                p
            };
            let code = r#gen::_export_shout_cabi::<Impl>(p, n);
            vassert!(SEEN_STR_LEN == n && (n < 1 || SEEN_STR_BYTES[0] == b[0]) && (n < 2 || SEEN_STR_BYTES[1] == b[1]), "C08: the string arrives unchanged");
            vassert!(TASK_RETURNS == 1 && RETURNED_STR.1 == n && (n < 1 || RETURNED_BYTES[0] == b[0]) && (n < 2 || RETURNED_BYTES[1] == b[1]),
                "C08: the returned string reaches task.return unchanged, exactly once");
            vassert!(code == 0 && h().task_cancels == 0);
        }
    }
}
// the string length is fixed per harness (a symbolic length exhausts CBMC's memory here; contents stay symbolic)
c08_harness! { fn c08_async_export_string_len0_same_bytes_as_sync() { #[cfg(kani)] export_string(0); }}
c08_harness! { fn c08_async_export_string_len1_same_bytes_as_sync() { #[cfg(kani)] export_string(1); }}
c08_harness! { fn c08_async_export_string_len2_same_bytes_as_sync() { #[cfg(kani)] export_string(2); }}

// 3. async import that returns at once: one [async-lower] call with the canonically lowered parameter, the result lifted
//    from the results area, no subtask handle to drop or cancel.
struct Once<F>(F);
fn poll_once<F: Future>(f: Pin<&mut F>) -> Poll<F::Output> {
    let w = host::counting_waker();
    let mut cx = Context::from_waker(&w);
    f.poll(&mut cx)
}
c08_harness! { fn c08_async_import_scalar_immediate_return() {
    #[cfg(kani)]
    {
        reset();
        let a: u32 = kani::any();
        let r: u32 = kani::any();
        unsafe {
            IMPORT_ANSWER = r;
            let mut task = host::mock_task(0, true);
            host::enter_task(&mut task);
            let mut fut = core::pin::pin!(r#gen::verif::asy::imp::fetch(a));
            let got = poll_once(fut.as_mut());
            vassert!(IMPORT_CALLS == 1 && IMPORT_ARG == a, "C08: exactly one core call with the canonically lowered parameter");
            vassert!(got == Poll::Ready(r), "C08: the result is lifted from the results area, as the sync binding would");
            vassert!(h().subtask_drops == 0 && h().subtask_cancels == 0 && host::total_registrations() == 0, "C08: no handle was created: nothing to drop, cancel or wait on");
        }
    }
}}

// 4. async import with a string parameter and result that returns at once: the lowered parameter bytes are alive when the
//    callee runs (the mock host reads them during the call), the result string is lifted from (pointer, length).
#[cfg(kani)]
fn import_string(n: usize) {
    {
        reset();
        let b: [u8; 2] = kani::any();
        kani::assume(b[0] < 0x80 && b[1] < 0x80);
        unsafe {
            let mut s = String::new();
            if n >= 1 { s.push(b[0] as char); }
            if n >= 2 { s.push(b[1] as char); }
            // the callee answers with a one-byte string it allocated in the guest (through cabi_realloc)
            let rp = alloc::alloc::alloc(core::alloc::Layout::from_size_align(1, 1).unwrap());
            kani::assume(!rp.is_null());
            *rp = b'k';
            IMPORT_ANSWER_STR = (rp as usize, 1);
            let mut task = host::mock_task(0, true);
            host::enter_task(&mut task);
            let mut fut = core::pin::pin!(r#gen::verif::asy::imp::greet(s));
            let got = poll_once(fut.as_mut());
            vassert!(IMPORT_CALLS == 1 && IMPORT_STR_LEN == n && (n < 1 || IMPORT_BYTES[0] == b[0]) && (n < 2 || IMPORT_BYTES[1] == b[1]),
                "C08: the callee sees the parameter bytes (still alive during the call)");
            match got {
                Poll::Ready(r) => vassert!(r.len() == 1 && r.as_bytes()[0] == b'k', "C08: the result string is lifted from the results area"),
                Poll::Pending => vassert!(false, "C08: an import that returned at once is ready"),
            }
        }
    }
}
c08_harness! { fn c08_async_import_string_len0_params_alive_during_call() { #[cfg(kani)] import_string(0); }}
c08_harness! { fn c08_async_import_string_len1_params_alive_during_call() { #[cfg(kani)] import_string(1); }}
c08_harness! { fn c08_async_import_string_len2_params_alive_during_call() { #[cfg(kani)] import_string(2); }}
