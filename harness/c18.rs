//! C18 — WaitableOperation / CabiTask: registered while waiting, removed from every task before
//! cancel or drop, each completion delivered exactly once; no pointer to freed state stays
//! registered, including when the operation moves between tasks.
//!
//! `MockOp` is an abstract WaitableOp whose answers are chosen by the harness (symbolic): the
//! generic state machine is verified against the *trait contract*, each concrete op (stream,
//! future, subtask) separately under C19–C21.
use super::host::{self, h};
use super::super::waitable::{WaitableOp, WaitableOperation};
use super::super::{cabi, BLOCKED};
use core::future::Future;
use core::pin::Pin;
use core::task::{Context, Poll};

pub const W: u32 = 7; // the waitable handle of the operation under test

pub struct Log {
    pub starts: u32,
    pub updates: u32,
    pub last_update_code: u32,
    pub cancels: u32,
    pub cancel_while_registered: bool,
    pub cancel_after_completion: bool,
    pub completed: bool,
    pub start_cancelled: u32,
    pub into_cancel: u32,
    pub start_code: u32,
    pub cancel_code: u32,
}
pub static mut LOG: Log = Log {
    starts: 0, updates: 0, last_update_code: 0, cancels: 0, cancel_while_registered: false,
    cancel_after_completion: false, completed: false, start_cancelled: 0, into_cancel: 0,
    start_code: 0, cancel_code: 0,
};
fn log() -> &'static mut Log {
    unsafe { &mut *core::ptr::addr_of_mut!(LOG) }
}
pub fn reset(start_code: u32, cancel_code: u32) {
    host::reset();
    *log() = Log {
        starts: 0, updates: 0, last_update_code: 0, cancels: 0, cancel_while_registered: false,
        cancel_after_completion: false, completed: false, start_cancelled: 0, into_cancel: 0,
        start_code, cancel_code,
    };
}

pub struct MockOp;
pub struct InP(u32);
unsafe impl WaitableOp for MockOp {
    type Start = u32;
    type InProgress = InP;
    type Result = u32;
    type Cancel = (bool, u32); // (was it a completion result?, value)

    fn start(&mut self, s: u32) -> (u32, InP) {
        log().starts += 1;
        (log().start_code, InP(s))
    }
    fn in_progress_update(&mut self, st: InP, code: u32) -> Result<u32, InP> {
        log().updates += 1;
        log().last_update_code = code;
        vassert!(!log().completed, "in_progress_update after the operation completed");
        if code == BLOCKED {
            Err(st)
        } else {
            log().completed = true;
            Ok(code)
        }
    }
    fn start_cancelled(&mut self, s: u32) -> (bool, u32) {
        log().start_cancelled += 1;
        (false, s)
    }
    fn in_progress_waitable(&mut self, _: &InP) -> u32 {
        W
    }
    fn in_progress_cancel(&mut self, _: &mut InP) -> u32 {
        log().cancels += 1;
        if host::registrations(W) != 0 {
            log().cancel_while_registered = true;
        }
        if log().completed {
            log().cancel_after_completion = true;
        }
        log().cancel_code
    }
    fn result_into_cancel(&mut self, r: u32) -> (bool, u32) {
        log().into_cancel += 1;
        (true, r)
    }
}

#[cfg(kani)]
fn any_code_not_blocked() -> u32 {
    let c: u32 = kani::any();
    kani::assume(c != BLOCKED);
    c
}

/// Representation invariant of a live operation (checked after every step): whenever some task's ledger holds an entry
/// for the operation's waitable, the entry points at THIS operation's completion slot, no other task holds one, and —
/// for a version-2 task, where the operation keeps a cloned handle — the operation's own record says it is registered
/// with exactly that task (otherwise its destructor / a later move would not unregister it).
fn inv<S: WaitableOp>(op: &WaitableOperation<S>) {
    use super::super::waitable::verif_peek as peek;
    let slot = peek::completion_slot(op);
    let (has_task, task_ptr, believes) = peek::task_view(op);
    let mut t = 0;
    let mut holders = 0;
    while t < host::NTASK {
        if let Some(e) = host::entry_of(t, W) {
            holders += 1;
            vassert!(e.ptr as usize == slot, "C18: a task holds a pointer that is not this operation's completion slot");
            vassert!(host::joined_set_of(W) == host::MOCK_SET_BASE + t as u32, "C18: registered with a task but not a member of that task's waitable set (its completion could never be delivered)");
            if has_task {
                vassert!(task_ptr == t + 1 && believes == Some(W), "C18: registered with a task the operation does not record as registered (it would never be unregistered)");
            }
        }
        t += 1;
    }
    vassert!(holders <= 1, "C18: registered with more than one task at once");
    if holders == 0 {
        vassert!(host::joined_set_of(W) == 0, "C18: member of a waitable set without being registered with its task");
    }
    if peek::code_pending(op) {
        vassert!(holders == 0, "C18: a delivered completion removes the registration");
    }
}

/// Common post-condition of every scenario once the operation value is gone.
fn assert_nothing_registered_anywhere() {
    vassert!(host::total_registrations() == 0, "C18: a pointer to freed operation state is still registered with a task");
    // balanced task references (v2 tasks)
    let mut t = 0;
    while t < host::NTASK {
        vassert!(h().tasks[t].clones == h().tasks[t].drops, "C18: task reference leaked or over-released");
        t += 1;
    }
}

// ------------------------------------------------------------------------------------------
// 1. poll from Start: start called once; completing code => Ready/Done/no entry; BLOCKED =>
//    Pending with exactly one entry (W, ptr) in the running task and nowhere else.
crate::verif_host_stubs! {
fn c18_poll_from_start() {
    #[cfg(kani)]
    {
        let start_code: u32 = kani::any();
        let v2: bool = kani::any();
        reset(start_code, 0);
        let mut task = host::mock_task(0, v2);
        host::enter_task(&mut task);
        let waker = host::counting_waker();
        let mut cx = Context::from_waker(&waker);
        let mut op = core::pin::pin!(WaitableOperation::new(MockOp, 5));
        let r = op.as_mut().poll_complete(&mut cx);
        inv(&op);
        vassert!(log().starts == 1);
        if start_code != BLOCKED {
            vassert!(r == Poll::Ready(start_code));
            vassert!(op.is_done());
            vassert!(host::total_registrations() == 0);
            vassert!(log().updates == 1 && log().last_update_code == start_code);
        } else {
            vassert!(r.is_pending());
            vassert!(!op.is_done());
            vassert!(host::registrations(W) == 1 && host::total_registrations() == 1, "C18: pending operation must be registered exactly once");
            vassert!(host::entry_of(0, W).is_some(), "C18: registered with the running task");
            vassert!(!host::entry_of(0, W).unwrap().ptr.is_null());
        }
        vassert!(host::wakes() == 0);
        kani::cover!(start_code == BLOCKED);
        kani::cover!(start_code != BLOCKED);
        // dropping: covered by c18_drop_*; here forget nothing, let Drop run and re-check
        let cancel_code = any_code_not_blocked();
        log().cancel_code = cancel_code;
        // `op` dropped at end of scope by pin! (value lives on this frame)
    }
}}

// 2. re-poll while in progress and no code delivered: same pointer re-registered, still one entry
crate::verif_host_stubs! {
fn c18_repoll_keeps_single_registration() {
    #[cfg(kani)]
    {
        let v2: bool = kani::any();
        reset(BLOCKED, any_code_not_blocked());
        let mut task = host::mock_task(0, v2);
        host::enter_task(&mut task);
        let waker = host::counting_waker();
        let mut cx = Context::from_waker(&waker);
        let mut op = core::pin::pin!(WaitableOperation::new(MockOp, 5));
        vassert!(op.as_mut().poll_complete(&mut cx).is_pending());
        inv(&op);
        let p1 = host::entry_of(0, W).unwrap().ptr;
        vassert!(op.as_mut().poll_complete(&mut cx).is_pending());
        inv(&op);
        let p2 = host::entry_of(0, W).unwrap().ptr;
        vassert!(p1 == p2, "C18: re-registration must reuse the same completion slot");
        vassert!(host::registrations(W) == 1 && host::total_registrations() == 1);
        vassert!(log().starts == 1 && log().updates == 1, "C18: no completion was delivered, so none may be processed");
        vassert!(host::wakes() == 0);
    }
}}

// 3. delivery: the task removes the entry and calls the callback once => one wake, and the next
//    poll hands exactly that code to the op exactly once.
crate::verif_host_stubs! {
fn c18_delivery_exactly_once() {
    #[cfg(kani)]
    {
        let v2: bool = kani::any();
        let code: u32 = kani::any();
        reset(BLOCKED, any_code_not_blocked());
        let mut task = host::mock_task(0, v2);
        host::enter_task(&mut task);
        let waker = host::counting_waker();
        let mut cx = Context::from_waker(&waker);
        let mut op = core::pin::pin!(WaitableOperation::new(MockOp, 5));
        vassert!(op.as_mut().poll_complete(&mut cx).is_pending());
        inv(&op);
        vassert!(unsafe { host::deliver(0, W, code) });
        inv(&op);
        vassert!(host::wakes() == 1, "C18: a delivered completion wakes the waiting future exactly once");
        vassert!(host::total_registrations() == 0);
        let before = log().updates;
        let r = op.as_mut().poll_complete(&mut cx);
        vassert!(log().updates == before + 1 && log().last_update_code == code, "C18: delivered code processed exactly once");
        if code != BLOCKED {
            vassert!(r == Poll::Ready(code));
            vassert!(host::total_registrations() == 0);
            // polling again without a new delivery must not process the code a second time: it panics
        } else {
            vassert!(r.is_pending());
            vassert!(host::registrations(W) == 1);
            // a second poll with nothing delivered processes nothing
            let b2 = log().updates;
            vassert!(op.as_mut().poll_complete(&mut cx).is_pending());
            inv(&op);
            vassert!(log().updates == b2, "C18: one delivery, one processing");
        }
        vassert!(host::wakes() == 1);
        kani::cover!(code == BLOCKED);
        kani::cover!(code != BLOCKED);
    }
}}

// 4. cancel from every state: in_progress_cancel only when registered nowhere, at most once,
//    never after a completing code.
crate::verif_host_stubs! {
fn c18_cancel_from_every_state() {
    #[cfg(kani)]
    {
        let v2: bool = kani::any();
        let state: u8 = kani::any();
        kani::assume(state < 4);
        let start_code = if state == 0 { kani::any() } else { BLOCKED };
        let cancel_code = any_code_not_blocked();
        let delivered: u32 = kani::any();
        reset(start_code, cancel_code);
        let mut task = host::mock_task(0, v2);
        host::enter_task(&mut task);
        let waker = host::counting_waker();
        let mut cx = Context::from_waker(&waker);
        let mut op = core::pin::pin!(WaitableOperation::new(MockOp, 5));
        // state 0: never polled (Start).  1: polled, blocked, nothing delivered.
        // 2: polled, blocked, a code was delivered but not yet processed.  3: as 1 but polled twice.
        if state >= 1 {
            vassert!(op.as_mut().poll_complete(&mut cx).is_pending());
            inv(&op);
        }
        if state == 2 {
            vassert!(unsafe { host::deliver(0, W, delivered) });
            inv(&op);
        }
        if state == 3 {
            vassert!(op.as_mut().poll_complete(&mut cx).is_pending());
            inv(&op);
        }
        let (was_result, v) = op.as_mut().cancel();
        vassert!(op.is_done());
        vassert!(!log().cancel_while_registered, "C18: cancelled while still registered with a task");
        vassert!(!log().cancel_after_completion, "C18: cancelled after the operation had completed");
        vassert!(log().cancels <= 1);
        vassert!(host::total_registrations() == 0, "C18: registration survives cancellation");
        if state == 0 {
            vassert!(log().starts == 0 && log().cancels == 0 && log().start_cancelled == 1 && !was_result && v == 5);
        } else if state == 2 && delivered != BLOCKED {
            // the delivered code completed the operation: no cancel needed, result converted
            vassert!(log().cancels == 0 && was_result && v == delivered);
        } else {
            vassert!(log().cancels == 1 && was_result && v == cancel_code, "C18: only a call still in progress is cancelled, exactly once");
        }
        kani::cover!(state == 0);
        kani::cover!(state == 1);
        kani::cover!(state == 2 && delivered == BLOCKED);
        kani::cover!(state == 2 && delivered != BLOCKED);
        kani::cover!(state == 3);
    }
}}

// 5. drop from every state ends with no registration and balanced task references
fn drop_scenario(v2: bool, state: u8, delivered: u32) {
    let mut task = host::mock_task(0, v2);
    host::enter_task(&mut task);
    let waker = host::counting_waker();
    let mut cx = Context::from_waker(&waker);
    {
        let mut op = core::pin::pin!(WaitableOperation::new(MockOp, 5));
        if state >= 1 {
            let _ = op.as_mut().poll_complete(&mut cx);
        }
        if state == 2 {
            vassert!(unsafe { host::deliver(0, W, delivered) });
            inv(&op);
        }
        if state == 3 {
            // completed by polling after delivery
            vassert!(unsafe { host::deliver(0, W, delivered) });
            inv(&op);
            let _ = op.as_mut().poll_complete(&mut cx);
        }
    }
    assert_nothing_registered_anywhere();
    vassert!(!log().cancel_while_registered, "C18: cancelled while still registered with a task");
    vassert!(!log().cancel_after_completion);
    vassert!(log().cancels <= 1);
}
crate::verif_host_stubs! {
fn c18_drop_from_every_state() {
    #[cfg(kani)]
    {
        let v2: bool = kani::any();
        let state: u8 = kani::any();
        kani::assume(state < 4);
        let start_code: u32 = if state == 0 { BLOCKED } else { kani::any() };
        kani::assume(state < 2 || start_code == BLOCKED);
        let delivered: u32 = kani::any();
        reset(start_code, any_code_not_blocked());
        drop_scenario(v2, state, delivered);
        if state == 0 {
            vassert!(log().starts == 0 && log().cancels == 0);
        }
        if state == 1 && start_code == BLOCKED {
            vassert!(log().cancels == 1, "C18: an operation dropped while in flight is cancelled");
        }
        if state == 1 && start_code != BLOCKED {
            vassert!(log().cancels == 0);
        }
        if state == 3 && delivered != BLOCKED {
            vassert!(log().cancels == 0);
        }
        kani::cover!(state == 1 && start_code == BLOCKED);
        kani::cover!(state == 2 && delivered == BLOCKED);
        kani::cover!(state == 3 && delivered != BLOCKED);
    }
}}

// 6. cross-task move: registered under task A, polled again under task B => removed from A before
//    (or when) added to B; dropping under B (or with no task) leaves nothing registered in A or B.
crate::verif_host_stubs! {
fn c18_cross_task_move() {
    #[cfg(kani)]
    {
        let drop_under: u8 = kani::any();
        kani::assume(drop_under < 3);
        let deliver_in_b: bool = kani::any();
        let partial_in_a: bool = kani::any();
        let delivered: u32 = kani::any();
        reset(BLOCKED, any_code_not_blocked());
        let mut task_a = host::mock_task(0, true);
        let mut task_b = host::mock_task(1, true);
        let waker = host::counting_waker();
        let mut cx = Context::from_waker(&waker);
        {
            let mut op = core::pin::pin!(WaitableOperation::new(MockOp, 5));
            host::enter_task(&mut task_a);
            vassert!(op.as_mut().poll_complete(&mut cx).is_pending());
            inv(&op);
            vassert!(host::entry_of(0, W).is_some() && host::entry_of(1, W).is_none());
            if partial_in_a {
                // partial progress: task A delivers a non-final status, the operation is polled again under A and
                // re-registers with the task it already holds; only then does it move
                vassert!(unsafe { host::deliver(0, W, BLOCKED) });
                inv(&op);
                vassert!(host::entry_of(0, W).is_none());
                vassert!(op.as_mut().poll_complete(&mut cx).is_pending());
                inv(&op);
                vassert!(host::entry_of(0, W).is_some() && host::registrations(W) == 1, "C18: still waiting after partial progress => registered again");
            }
            host::enter_task(&mut task_b);
            vassert!(op.as_mut().poll_complete(&mut cx).is_pending());
            inv(&op);
            vassert!(host::entry_of(0, W).is_none(), "C18: moving to another task must unregister from the previous one");
            vassert!(host::entry_of(1, W).is_some());
            vassert!(host::registrations(W) == 1);
            if deliver_in_b {
                vassert!(unsafe { host::deliver(1, W, delivered) });
                inv(&op);
            }
            match drop_under {
                0 => host::enter_task(&mut task_a),
                1 => host::enter_task(&mut task_b),
                _ => host::leave_task(),
            }
        }
        assert_nothing_registered_anywhere();
        vassert!(!log().cancel_while_registered, "C18: cancelled while still registered with a task");
        kani::cover!(deliver_in_b && delivered == BLOCKED);
        kani::cover!(!deliver_in_b && drop_under == 2);
        kani::cover!(partial_in_a && deliver_in_b);
    }
}}

// 6b. v1 tasks cannot be cloned: the operation must then (un)register through the current task
crate::verif_host_stubs! {
fn c18_v1_task_never_cloned() {
    #[cfg(kani)]
    {
        reset(BLOCKED, any_code_not_blocked());
        let mut task = host::mock_task(0, false);
        host::enter_task(&mut task);
        let waker = host::counting_waker();
        let mut cx = Context::from_waker(&waker);
        {
            let mut op = core::pin::pin!(WaitableOperation::new(MockOp, 5));
            vassert!(op.as_mut().poll_complete(&mut cx).is_pending());
            inv(&op);
            vassert!(h().tasks[0].clones == 0, "C18: a version-1 task has no clone callback");
        }
        vassert!(h().tasks[0].clones == 0 && h().tasks[0].drops == 0);
        assert_nothing_registered_anywhere();
        vassert!(!log().cancel_while_registered);
    }
}}
