//! C19 — streams: each value transferred exactly once and in order; each write/read reports exactly the count
//! the host transferred; untransferred values are handed back (or dropped once); every lowered buffer released once.
//!
//! Static-dispatch mock `StreamOps` (the `&StreamVtable<T>` impl is a set of one-line forwarders; function
//! pointers through the vtable made CBMC explode in the probes).  Payload ledger: every lower / lift /
//! dealloc_lists call is logged with the element index it touched.
use super::host::{self, h};
use super::super::abi_buffer::AbiBuffer;
use super::super::stream_support::{RawStreamReader, RawStreamWriter, StreamOps, StreamResult};
use super::super::{BLOCKED, CANCELLED, COMPLETED, DROPPED};
use core::alloc::Layout;
use core::future::Future;
use core::task::{Context, Poll};
use std::vec::Vec;

pub const WH: u32 = 21; // writable end
pub const RH: u32 = 22; // readable end
pub const STRIDE: usize = 2;
pub const NLOG: usize = 8;

pub struct StLog {
    pub lower_n: usize,
    pub lower_vals: [u8; NLOG],
    pub lower_base: *mut u8,
    pub lower_in_order: bool,
    pub lift_n: usize,
    pub lift_idx: [usize; NLOG],
    pub dealloc_n: usize,
    pub dealloc_idx: [usize; NLOG],
    pub start_write: u32,
    pub start_write_ptr: *const u8,
    pub start_write_amt: usize,
    pub start_write_handle: u32,
    pub start_read: u32,
    pub start_read_ptr: *mut u8,
    pub start_read_amt: usize,
    pub cancel_write: u32,
    pub cancel_read: u32,
    pub cancel_while_registered: bool,
    pub drop_writable: u32,
    pub drop_readable: u32,
    pub write_answer: u32,
    pub read_answer: u32,
    pub cancel_answer: u32,
    pub read_fill: u8, // how many elements the mock host writes into the read buffer on an immediate answer
}
pub static mut STLOG: StLog = StLog::new();
impl StLog {
    pub const fn new() -> StLog {
        StLog {
            lower_n: 0, lower_vals: [0; NLOG], lower_base: core::ptr::null_mut(), lower_in_order: true,
            lift_n: 0, lift_idx: [0; NLOG], dealloc_n: 0, dealloc_idx: [0; NLOG],
            start_write: 0, start_write_ptr: core::ptr::null(), start_write_amt: 0, start_write_handle: 0,
            start_read: 0, start_read_ptr: core::ptr::null_mut(), start_read_amt: 0,
            cancel_write: 0, cancel_read: 0, cancel_while_registered: false, drop_writable: 0, drop_readable: 0,
            write_answer: 0, read_answer: 0, cancel_answer: 0, read_fill: 0,
        }
    }
}
pub fn st() -> &'static mut StLog {
    unsafe { &mut *core::ptr::addr_of_mut!(STLOG) }
}
pub fn reset() {
    host::reset();
    *st() = StLog::new();
}

/// `canonical`: native layout == canonical layout (no lower/lift); otherwise every element occupies STRIDE bytes
#[derive(Clone, Copy)]
pub struct MockS {
    pub canonical: bool,
    pub lists: bool,
}
fn idx_of(base: *mut u8, p: *mut u8) -> usize {
    ((p as usize).wrapping_sub(base as usize)) / STRIDE
}
unsafe impl StreamOps for MockS {
    type Payload = u8;
    fn new(&mut self) -> u64 {
        ((WH as u64) << 32) | RH as u64
    }
    fn elem_layout(&self) -> Layout {
        if self.canonical {
            Layout::new::<u8>()
        } else {
            unsafe { Layout::from_size_align_unchecked(STRIDE, 1) }
        }
    }
    fn native_abi_matches_canonical_abi(&self) -> bool {
        self.canonical
    }
    fn contains_lists(&self) -> bool {
        self.lists
    }
    unsafe fn lower(&mut self, payload: u8, dst: *mut u8) {
        let l = st();
        if l.lower_n == 0 {
            l.lower_base = dst;
        } else if idx_of(l.lower_base, dst) != l.lower_n {
            l.lower_in_order = false;
        }
        if l.lower_n < NLOG {
            l.lower_vals[l.lower_n] = payload;
        }
        l.lower_n += 1;
        unsafe {
            *dst = payload;
            *dst.add(1) = !payload;
        }
    }
    unsafe fn dealloc_lists(&mut self, dst: *mut u8) {
        let l = st();
        if l.dealloc_n < NLOG {
            l.dealloc_idx[l.dealloc_n] = idx_of(l.lower_base, dst);
        }
        l.dealloc_n += 1;
    }
    unsafe fn lift(&mut self, dst: *mut u8) -> u8 {
        let l = st();
        let base = if l.lower_base.is_null() { l.start_read_ptr } else { l.lower_base };
        if l.lift_n < NLOG {
            l.lift_idx[l.lift_n] = idx_of(base, dst);
        }
        l.lift_n += 1;
        unsafe {
            let v = *dst;
            vassert!(*dst.add(1) == !v, "C19: lifted from a location that does not hold a lowered element");
            v
        }
    }
    unsafe fn start_write(&mut self, stream: u32, val: *const u8, amt: usize) -> u32 {
        let l = st();
        l.start_write += 1;
        l.start_write_handle = stream;
        l.start_write_ptr = val;
        l.start_write_amt = amt;
        l.write_answer
    }
    unsafe fn start_read(&mut self, stream: u32, val: *mut u8, amt: usize) -> u32 {
        let l = st();
        l.start_read += 1;
        l.start_read_ptr = val;
        l.start_read_amt = amt;
        if l.read_answer != BLOCKED {
            // the host wrote the items it reports before returning
            unsafe { host_fill(self.canonical, (l.read_answer >> 4) as usize) };
        }
        l.read_answer
    }
    unsafe fn cancel_read(&mut self, stream: u32) -> u32 {
        st().cancel_read += 1;
        if host::registrations(stream) != 0 {
            st().cancel_while_registered = true;
        }
        st().cancel_answer
    }
    unsafe fn cancel_write(&mut self, stream: u32) -> u32 {
        st().cancel_write += 1;
        if host::registrations(stream) != 0 {
            st().cancel_while_registered = true;
        }
        st().cancel_answer
    }
    unsafe fn drop_readable(&mut self, _stream: u32) {
        st().drop_readable += 1;
    }
    unsafe fn drop_writable(&mut self, _stream: u32) {
        st().drop_writable += 1;
    }
}

fn items(len: usize) -> Vec<u8> {
    let mut v = Vec::with_capacity(len);
    let mut i = 0;
    while i < len {
        v.push(10 * (i as u8 + 1));
        i += 1;
    }
    v
}

// ============================================================================ AbiBuffer
/// canonical layout: the buffer *is* the vector; advance only moves the cursor
#[cfg(kani)]
fn abi_buffer_canonical(len: usize) {
    reset();
    let v = items(len);
    let base = v.as_ptr();
    let mut b = AbiBuffer::new(v, MockS { canonical: true, lists: false });
    vassert!(b.remaining() == len);
    let (p, l) = b.abi_ptr_and_len();
    vassert!(p == base && l == len, "C19: abi_ptr_and_len at cursor 0");
    let k: usize = kani::any();
    kani::assume(k <= len);
    b.advance(k);
    vassert!(b.remaining() == len - k, "C19: advance(k) consumes exactly k");
    let (p, l) = b.abi_ptr_and_len();
    vassert!(p == base.wrapping_add(k) && l == len - k, "C19: abi_ptr_and_len = (base + cursor, len - cursor)");
    let k2: usize = kani::any();
    kani::assume(k2 <= len - k);
    b.advance(k2);
    vassert!(b.remaining() == len - k - k2);
    let out = b.into_vec();
    vassert!(out.len() == len - k - k2, "C19: into_vec returns exactly the untransferred suffix");
    let mut i = 0;
    while i < out.len() {
        vassert!(out[i] == 10 * ((k + k2 + i) as u8 + 1), "C19: untransferred values returned in order");
        i += 1;
    }
    vassert!(st().lower_n == 0 && st().lift_n == 0 && st().dealloc_n == 0);
    kani::cover!(k + k2 == len);
    kani::cover!(k + k2 < len || len == 0);
}
/// lowered layout with lists: lower once per item in order; advance(k) releases exactly the k transferred
/// items' lists once each in order; into_vec lifts exactly the rest once each in order
#[cfg(kani)]
fn abi_buffer_lowered(len: usize, lists: bool) {
    reset();
    let mut b = AbiBuffer::new(items(len), MockS { canonical: false, lists });
    vassert!(st().lower_n == len && st().lower_in_order, "C19: every value lowered exactly once, in order, at base + i*size");
    let mut i = 0;
    while i < len {
        vassert!(st().lower_vals[i] == 10 * (i as u8 + 1));
        i += 1;
    }
    let (p, l) = b.abi_ptr_and_len();
    vassert!(l == len);
    if len > 0 {
        vassert!(p == st().lower_base as *const u8);
    }
    let k: usize = kani::any();
    kani::assume(k <= len);
    b.advance(k);
    vassert!(b.remaining() == len - k);
    let (p, l) = b.abi_ptr_and_len();
    vassert!(l == len - k);
    if len > 0 {
        vassert!(p == (st().lower_base as *const u8).wrapping_add(k * STRIDE), "C19: pointer advances by k elements");
    }
    if lists {
        vassert!(st().dealloc_n == k, "C19: lists of exactly the transferred items are released");
        i = 0;
        while i < k {
            vassert!(st().dealloc_idx[i] == i, "C19: released once each, in order");
            i += 1;
        }
    } else {
        vassert!(st().dealloc_n == 0);
    }
    let out = b.into_vec();
    vassert!(out.len() == len - k);
    vassert!(st().lift_n == len - k, "C19: exactly the untransferred items are lifted back, once each");
    i = 0;
    while i < len - k {
        vassert!(st().lift_idx[i] == k + i && out[i] == 10 * ((k + i) as u8 + 1), "C19: lifted in order from their own slots");
        i += 1;
    }
    vassert!(st().dealloc_n == if lists { k } else { 0 }, "C19: no list released twice");
    kani::cover!(k == len);
    kani::cover!(k == 0);
}
#[cfg(kani)]
fn abi_buffer_dropped(len: usize) {
    reset();
    {
        let mut b = AbiBuffer::new(items(len), MockS { canonical: false, lists: true });
        let k: usize = kani::any();
        kani::assume(k <= len);
        b.advance(k);
        kani::cover!(k < len);
        // dropped: the remaining values are lifted back once (so their destructors run once)
        drop(b);
        vassert!(st().lift_n == len - k && st().dealloc_n == k, "C19: discarded values are recovered exactly once");
    }
}
crate::verif_host_stubs! { #[cfg_attr(kani, kani::unwind(9))] fn c19_abibuf_canonical_len0() { #[cfg(kani)] abi_buffer_canonical(0); } }
crate::verif_host_stubs! { #[cfg_attr(kani, kani::unwind(9))] fn c19_abibuf_canonical_len1() { #[cfg(kani)] abi_buffer_canonical(1); } }
crate::verif_host_stubs! { #[cfg_attr(kani, kani::unwind(9))] fn c19_abibuf_canonical_len3() { #[cfg(kani)] abi_buffer_canonical(3); } }
crate::verif_host_stubs! { #[cfg_attr(kani, kani::unwind(9))] fn c19_abibuf_lowered_len0() { #[cfg(kani)] abi_buffer_lowered(0, true); } }
crate::verif_host_stubs! { #[cfg_attr(kani, kani::unwind(9))] fn c19_abibuf_lowered_len1() { #[cfg(kani)] abi_buffer_lowered(1, true); } }
crate::verif_host_stubs! { #[cfg_attr(kani, kani::unwind(9))] fn c19_abibuf_lowered_len3() { #[cfg(kani)] abi_buffer_lowered(3, true); } }
crate::verif_host_stubs! { #[cfg_attr(kani, kani::unwind(9))] fn c19_abibuf_lowered_nolists_len2() { #[cfg(kani)] abi_buffer_lowered(2, false); } }
crate::verif_host_stubs! { #[cfg_attr(kani, kani::unwind(9))] fn c19_abibuf_dropped_len2() { #[cfg(kani)] abi_buffer_dropped(2); } }

// ============================================================================ stream write
/// codes the canonical ABI allows for a transfer of at most `max` items
#[cfg(kani)]
fn any_stream_code(max: usize, allow_blocked: bool) -> u32 {
    let c: u32 = kani::any();
    if c == BLOCKED {
        kani::assume(allow_blocked);
        return c;
    }
    let kind = c & 0xf;
    kani::assume(kind == COMPLETED || kind == DROPPED || kind == CANCELLED);
    kani::assume(((c >> 4) as usize) <= max);
    c
}
#[cfg(kani)]
fn check_write_result(code: u32, len: usize, lists: bool, canonical: bool, status: StreamResult, buf: AbiBuffer<MockS>) {
    let n = (code >> 4) as usize;
    let kind = code & 0xf;
    if n == 0 && kind == DROPPED {
        vassert!(status == StreamResult::Dropped, "C19: Dropped(0) reports Dropped");
        vassert!(buf.remaining() == len, "C19: nothing transferred, nothing consumed");
    } else if n == 0 && kind == CANCELLED {
        vassert!(status == StreamResult::Cancelled, "C19: Cancelled(0) reports Cancelled");
        vassert!(buf.remaining() == len);
    } else {
        vassert!(status == StreamResult::Complete(n), "C19: the write reports exactly the count the host transferred");
        vassert!(buf.remaining() == len - n, "C19: exactly the transferred values are consumed");
    }
    let consumed = len - buf.remaining();
    if lists && !canonical {
        vassert!(st().dealloc_n == consumed, "C19: lowered lists of transferred values released exactly once");
    }
    let rest = buf.into_vec();
    vassert!(rest.len() == len - consumed, "C19: values that were not transferred are returned to the writer");
    let mut i = 0;
    while i < rest.len() {
        vassert!(rest[i] == 10 * ((consumed + i) as u8 + 1), "C19: returned values are the untransferred suffix, in order");
        i += 1;
    }
}
/// write of `len` items.  mode 0: stream.write answers at once (any allowed code).  mode 1: BLOCKED, then the
/// completion is delivered through the task (any allowed code).  mode 2: BLOCKED, then the write is cancelled
/// and cancel-write answers any allowed code.
#[cfg(kani)]
fn stream_write(len: usize, canonical: bool, lists: bool, mode: u8, code: u32) {
    reset();
    let mut task = host::mock_task(0, true);
    host::enter_task(&mut task);
    let waker = host::counting_waker();
    let mut cx = Context::from_waker(&waker);
    let ops = MockS { canonical, lists };
    let mut w = unsafe { RawStreamWriter::new(WH, ops) };
    st().write_answer = if mode == 0 { code } else { BLOCKED };
    {
        let fut = w.write(items(len));
        let mut fut = core::pin::pin!(fut);
        let r = fut.as_mut().poll(&mut cx);
        vassert!(st().start_write == 1 && st().start_write_handle == WH && st().start_write_amt == len, "C19: stream.write called once with the remaining count");
        if !canonical && len > 0 {
            vassert!(st().start_write_ptr == st().lower_base as *const u8);
        }
        match r {
            Poll::Ready((status, buf)) => {
                vassert!(mode == 0, "C19: BLOCKED cannot complete a write");
                check_write_result(code, len, lists, canonical, status, buf);
            }
            Poll::Pending => {
                vassert!(mode != 0);
                vassert!(host::registrations(WH) == 1);
                if mode == 2 {
                    st().cancel_answer = code;
                    let (status, buf) = fut.as_mut().cancel();
                    vassert!(st().cancel_write == 1 && !st().cancel_while_registered, "C19: cancel-write once, after leaving the task's set");
                    check_write_result(code, len, lists, canonical, status, buf);
                } else {
                    vassert!(unsafe { host::deliver(0, WH, code) });
                    match fut.as_mut().poll(&mut cx) {
                        Poll::Ready((status, buf)) => check_write_result(code, len, lists, canonical, status, buf),
                        Poll::Pending => vassert!(false, "C19: a delivered completion must complete the write"),
                    }
                    vassert!(st().cancel_write == 0);
                }
            }
        }
        vassert!(st().start_write == 1);
    }
    vassert!(host::total_registrations() == 0);
    drop(w);
    vassert!(st().drop_writable == 1, "C19: writable end dropped exactly once");
}
/// every code the canonical ABI allows for a transfer of at most `len` items: {COMPLETED,DROPPED,CANCELLED} x 0..=len
#[cfg(kani)]
fn stream_write_all_codes(len: usize, canonical: bool, lists: bool, mode: u8) {
    let mut kind = 0;
    while kind < 3 {
        let mut n = 0;
        while n <= len {
            stream_write(len, canonical, lists, mode, kind | ((n as u32) << 4));
            n += 1;
        }
        kind += 1;
    }
    kani::cover!(st().start_write == 1, "all codes enumerated");
}
/// after the reader dropped during a partial transfer the writer is done: later writes never reach the host
#[cfg(kani)]
fn stream_write_after_peer_dropped() {
    reset();
    let mut task = host::mock_task(0, true);
    host::enter_task(&mut task);
    let waker = host::counting_waker();
    let mut cx = Context::from_waker(&waker);
    let mut w = unsafe { RawStreamWriter::new(WH, MockS { canonical: true, lists: false }) };
    st().write_answer = DROPPED | (1 << 4);
    {
        let fut = w.write(items(2));
        let mut fut = core::pin::pin!(fut);
        match fut.as_mut().poll(&mut cx) {
            Poll::Ready((status, buf)) => vassert!(status == StreamResult::Complete(1) && buf.remaining() == 1),
            Poll::Pending => vassert!(false),
        }
    }
    st().write_answer = COMPLETED | (1 << 4);
    {
        let fut = w.write(items(1));
        let mut fut = core::pin::pin!(fut);
        match fut.as_mut().poll(&mut cx) {
            Poll::Ready((status, buf)) => {
                vassert!(status == StreamResult::Dropped && buf.remaining() == 1, "C19: writes after the reader dropped report Dropped and keep the values");
            }
            Poll::Pending => vassert!(false),
        }
    }
    vassert!(st().start_write == 1, "C19: no host call after the reader dropped");
}
crate::verif_host_stubs! { #[cfg_attr(kani, kani::unwind(9))] fn c19_write_canonical_len2_immediate() { #[cfg(kani)] stream_write_all_codes(2, true, false, 0); } }
crate::verif_host_stubs! { #[cfg_attr(kani, kani::unwind(9))] fn c19_write_canonical_len2_delivered() { #[cfg(kani)] stream_write_all_codes(2, true, false, 1); } }
crate::verif_host_stubs! { #[cfg_attr(kani, kani::unwind(9))] fn c19_write_canonical_len2_cancelled() { #[cfg(kani)] stream_write_all_codes(2, true, false, 2); } }
crate::verif_host_stubs! { #[cfg_attr(kani, kani::unwind(9))] fn c19_write_lowered_len2_immediate() { #[cfg(kani)] stream_write_all_codes(2, false, true, 0); } }
crate::verif_host_stubs! { #[cfg_attr(kani, kani::unwind(9))] fn c19_write_lowered_len2_delivered() { #[cfg(kani)] stream_write_all_codes(2, false, true, 1); } }
crate::verif_host_stubs! { #[cfg_attr(kani, kani::unwind(9))] fn c19_write_lowered_len2_cancelled() { #[cfg(kani)] stream_write_all_codes(2, false, true, 2); } }
crate::verif_host_stubs! { #[cfg_attr(kani, kani::unwind(9))] fn c19_write_canonical_len0_immediate() { #[cfg(kani)] stream_write_all_codes(0, true, false, 0); } }
/// a partial transfer that ended in COMPLETED or CANCELLED leaves the stream usable: the next write reaches the host
#[cfg(kani)]
fn stream_write_after_partial(kind: u32) {
    reset();
    let mut task = host::mock_task(0, true);
    host::enter_task(&mut task);
    let waker = host::counting_waker();
    let mut cx = Context::from_waker(&waker);
    let mut w = unsafe { RawStreamWriter::new(WH, MockS { canonical: true, lists: false }) };
    st().write_answer = kind | (1 << 4);
    {
        let fut = w.write(items(2));
        let mut fut = core::pin::pin!(fut);
        match fut.as_mut().poll(&mut cx) {
            Poll::Ready((status, buf)) => vassert!(status == StreamResult::Complete(1) && buf.remaining() == 1),
            Poll::Pending => vassert!(false),
        }
    }
    st().write_answer = COMPLETED | (1 << 4);
    {
        let fut = w.write(items(1));
        let mut fut = core::pin::pin!(fut);
        match fut.as_mut().poll(&mut cx) {
            Poll::Ready((status, buf)) => vassert!(status == StreamResult::Complete(1) && buf.remaining() == 0, "C19: a stream whose reader is still there keeps transferring"),
            Poll::Pending => vassert!(false),
        }
    }
    vassert!(st().start_write == 2, "C19: the second write must reach the host");
}
crate::verif_host_stubs! { #[cfg_attr(kani, kani::unwind(9))] fn c19_write_after_partial_completed() { #[cfg(kani)] stream_write_after_partial(COMPLETED); } }
crate::verif_host_stubs! { #[cfg_attr(kani, kani::unwind(9))] fn c19_write_after_partial_cancelled() { #[cfg(kani)] stream_write_after_partial(CANCELLED); } }
crate::verif_host_stubs! { #[cfg_attr(kani, kani::unwind(9))] fn c19_write_after_peer_dropped() { #[cfg(kani)] stream_write_after_peer_dropped(); } }

// ============================================================================ stream read
/// the mock host "writes" n elements into the read buffer
unsafe fn host_fill(canonical: bool, n: usize) {
    let p = st().start_read_ptr;
    let mut i = 0;
    while i < n {
        let v = 10 * (i as u8 + 1);
        unsafe {
            if canonical {
                *p.add(i) = v;
            } else {
                *p.add(i * STRIDE) = v;
                *p.add(i * STRIDE + 1) = !v;
            }
        }
        i += 1;
    }
}
#[cfg(kani)]
fn check_read_result(code: u32, pre: usize, cap: usize, canonical: bool, status: StreamResult, buf: Vec<u8>) {
    let n = (code >> 4) as usize;
    let kind = code & 0xf;
    if n == 0 && kind == DROPPED {
        vassert!(status == StreamResult::Dropped);
        vassert!(buf.len() == pre);
    } else if n == 0 && kind == CANCELLED {
        vassert!(status == StreamResult::Cancelled);
        vassert!(buf.len() == pre);
    } else {
        vassert!(status == StreamResult::Complete(n), "C19: the read reports exactly the count the host transferred");
        vassert!(buf.len() == pre + n, "C19: exactly the transferred values are appended");
    }
    let got = buf.len() - pre;
    let mut i = 0;
    while i < pre {
        vassert!(buf[i] == 200 + i as u8, "C19: values already in the buffer are untouched");
        i += 1;
    }
    i = 0;
    while i < got {
        vassert!(buf[pre + i] == 10 * (i as u8 + 1), "C19: received values arrive once and in order");
        i += 1;
    }
    if !canonical {
        vassert!(st().lift_n == got, "C19: each received value lifted exactly once");
        i = 0;
        while i < got {
            vassert!(st().lift_idx[i] == i);
            i += 1;
        }
    }
}
#[cfg(kani)]
fn stream_read(pre: usize, spare: usize, canonical: bool, mode: u8, code: u32) {
    reset();
    let mut task = host::mock_task(0, true);
    host::enter_task(&mut task);
    let waker = host::counting_waker();
    let mut cx = Context::from_waker(&waker);
    let mut r = RawStreamReader::new(RH, MockS { canonical, lists: false });
    let mut v: Vec<u8> = Vec::with_capacity(pre + spare);
    let mut i = 0;
    while i < pre {
        v.push(200 + i as u8);
        i += 1;
    }
    let cap = v.capacity() - v.len();
    st().read_answer = if mode == 0 { code } else { BLOCKED };
    {
        let fut = r.read(v);
        let mut fut = core::pin::pin!(fut);
        let res = fut.as_mut().poll(&mut cx);
        vassert!(st().start_read == 1 && st().start_read_amt == cap, "C19: stream.read called once with the spare capacity");
        match res {
            Poll::Ready((status, buf)) => {
                vassert!(mode == 0);
                check_read_result(code, pre, cap, canonical, status, buf);
            }
            Poll::Pending => {
                vassert!(mode != 0);
                vassert!(host::registrations(RH) == 1);
                unsafe { host_fill(canonical, (code >> 4) as usize) };
                if mode == 2 {
                    st().cancel_answer = code;
                    let (status, buf) = fut.as_mut().cancel();
                    vassert!(st().cancel_read == 1 && !st().cancel_while_registered, "C19: cancel-read once, after leaving the task's set");
                    check_read_result(code, pre, cap, canonical, status, buf);
                } else {
                    vassert!(unsafe { host::deliver(0, RH, code) });
                    match fut.as_mut().poll(&mut cx) {
                        Poll::Ready((status, buf)) => check_read_result(code, pre, cap, canonical, status, buf),
                        Poll::Pending => vassert!(false, "C19: a delivered completion must complete the read"),
                    }
                    vassert!(st().cancel_read == 0);
                }
            }
        }
    }
    vassert!(host::total_registrations() == 0);
    drop(r);
    vassert!(st().drop_readable == 1, "C19: readable end dropped exactly once");
}
#[cfg(kani)]
fn stream_read_all_codes(pre: usize, spare: usize, canonical: bool, mode: u8) {
    stream_read_codes(pre, spare, canonical, mode, 0, 3)
}
#[cfg(kani)]
fn stream_read_codes(pre: usize, spare: usize, canonical: bool, mode: u8, kind_lo: u32, kind_hi: u32) {
    let mut kind = kind_lo;
    while kind < kind_hi {
        let mut n = 0;
        while n <= spare {
            stream_read(pre, spare, canonical, mode, kind | ((n as u32) << 4));
            n += 1;
        }
        kind += 1;
    }
    kani::cover!(st().start_read == 1, "all codes enumerated");
}
#[cfg(kani)]
fn stream_read_after_peer_dropped() {
    reset();
    let mut task = host::mock_task(0, true);
    host::enter_task(&mut task);
    let waker = host::counting_waker();
    let mut cx = Context::from_waker(&waker);
    let mut r = RawStreamReader::new(RH, MockS { canonical: true, lists: false });
    st().read_answer = DROPPED | (1 << 4);
    {
        let fut = r.read(Vec::with_capacity(2));
        let mut fut = core::pin::pin!(fut);
        match fut.as_mut().poll(&mut cx) {
            Poll::Ready((status, buf)) => { vassert!(status == StreamResult::Complete(1) && buf.len() == 1 && buf[0] == 10); }
            Poll::Pending => vassert!(false),
        }
    }
    {
        let fut = r.read(Vec::with_capacity(1));
        let mut fut = core::pin::pin!(fut);
        match fut.as_mut().poll(&mut cx) {
            Poll::Ready((status, buf)) => vassert!(status == StreamResult::Dropped && buf.len() == 0, "C19: reads after the writer dropped report Dropped"),
            Poll::Pending => vassert!(false),
        }
    }
    vassert!(st().start_read == 1, "C19: no host call after the writer dropped");
}
crate::verif_host_stubs! { #[cfg_attr(kani, kani::unwind(9))] fn c19_read_canonical_immediate_s1() { #[cfg(kani)] stream_read_all_codes(1, 1, true, 0); } }
crate::verif_host_stubs! { #[cfg_attr(kani, kani::unwind(9))] fn c19_read_canonical_immediate_s2() { #[cfg(kani)] stream_read_all_codes(1, 2, true, 0); } }
crate::verif_host_stubs! { #[cfg_attr(kani, kani::unwind(9))] fn c19_read_lowered_immediate_s1() { #[cfg(kani)] stream_read_all_codes(1, 1, false, 0); } }
crate::verif_host_stubs! { #[cfg_attr(kani, kani::unwind(9))] fn c19_read_lowered_immediate_s2() { #[cfg(kani)] stream_read_all_codes(1, 2, false, 0); } }
crate::verif_host_stubs! { #[cfg_attr(kani, kani::unwind(9))] fn c19_read_canonical_cancelled_s1() { #[cfg(kani)] stream_read_all_codes(1, 1, true, 2); } }
crate::verif_host_stubs! { #[cfg_attr(kani, kani::unwind(9))] fn c19_read_canonical_cancelled_s2() { #[cfg(kani)] stream_read_all_codes(1, 2, true, 2); } }
crate::verif_host_stubs! { #[cfg_attr(kani, kani::unwind(9))] fn c19_read_lowered_cancelled_s1() { #[cfg(kani)] stream_read_all_codes(1, 1, false, 2); } }
crate::verif_host_stubs! { #[cfg_attr(kani, kani::unwind(9))] fn c19_read_lowered_cancelled_s2() { #[cfg(kani)] stream_read_all_codes(1, 2, false, 2); } }
crate::verif_host_stubs! { #[cfg_attr(kani, kani::unwind(9))] fn c19_read_canonical_delivered_completed_s1() { #[cfg(kani)] stream_read_codes(1, 1, true, 1, 0, 1); } }
crate::verif_host_stubs! { #[cfg_attr(kani, kani::unwind(9))] fn c19_read_canonical_delivered_dropped_s1() { #[cfg(kani)] stream_read_codes(1, 1, true, 1, 1, 2); } }
crate::verif_host_stubs! { #[cfg_attr(kani, kani::unwind(9))] fn c19_read_canonical_delivered_cancelledcode_s1() { #[cfg(kani)] stream_read_codes(1, 1, true, 1, 2, 3); } }
crate::verif_host_stubs! { #[cfg_attr(kani, kani::unwind(9))] fn c19_read_canonical_delivered_completed_s2() { #[cfg(kani)] stream_read_codes(1, 2, true, 1, 0, 1); } }
crate::verif_host_stubs! { #[cfg_attr(kani, kani::unwind(9))] fn c19_read_canonical_delivered_dropped_s2() { #[cfg(kani)] stream_read_codes(1, 2, true, 1, 1, 2); } }
crate::verif_host_stubs! { #[cfg_attr(kani, kani::unwind(9))] fn c19_read_canonical_delivered_cancelledcode_s2() { #[cfg(kani)] stream_read_codes(1, 2, true, 1, 2, 3); } }
crate::verif_host_stubs! { #[cfg_attr(kani, kani::unwind(9))] fn c19_read_lowered_delivered_completed_s1() { #[cfg(kani)] stream_read_codes(1, 1, false, 1, 0, 1); } }
crate::verif_host_stubs! { #[cfg_attr(kani, kani::unwind(9))] fn c19_read_lowered_delivered_dropped_s1() { #[cfg(kani)] stream_read_codes(1, 1, false, 1, 1, 2); } }
crate::verif_host_stubs! { #[cfg_attr(kani, kani::unwind(9))] fn c19_read_lowered_delivered_cancelledcode_s1() { #[cfg(kani)] stream_read_codes(1, 1, false, 1, 2, 3); } }
crate::verif_host_stubs! { #[cfg_attr(kani, kani::unwind(9))] fn c19_read_lowered_delivered_completed_s2() { #[cfg(kani)] stream_read_codes(1, 2, false, 1, 0, 1); } }
crate::verif_host_stubs! { #[cfg_attr(kani, kani::unwind(9))] fn c19_read_lowered_delivered_dropped_s2() { #[cfg(kani)] stream_read_codes(1, 2, false, 1, 1, 2); } }
crate::verif_host_stubs! { #[cfg_attr(kani, kani::unwind(9))] fn c19_read_lowered_delivered_cancelledcode_s2() { #[cfg(kani)] stream_read_codes(1, 2, false, 1, 2, 3); } }
#[cfg(kani)]
fn stream_read_after_partial(kind: u32) {
    reset();
    let mut task = host::mock_task(0, true);
    host::enter_task(&mut task);
    let waker = host::counting_waker();
    let mut cx = Context::from_waker(&waker);
    let mut r = RawStreamReader::new(RH, MockS { canonical: true, lists: false });
    st().read_answer = kind | (1 << 4);
    {
        let fut = r.read(Vec::with_capacity(2));
        let mut fut = core::pin::pin!(fut);
        match fut.as_mut().poll(&mut cx) {
            Poll::Ready((status, buf)) => vassert!(status == StreamResult::Complete(1) && buf.len() == 1),
            Poll::Pending => vassert!(false),
        }
    }
    {
        let fut = r.read(Vec::with_capacity(1));
        let mut fut = core::pin::pin!(fut);
        match fut.as_mut().poll(&mut cx) {
            Poll::Ready((status, buf)) => vassert!(status == StreamResult::Complete(1) && buf.len() == 1 && buf[0] == 10, "C19: a stream whose writer is still there keeps transferring"),
            Poll::Pending => vassert!(false),
        }
    }
    vassert!(st().start_read == 2, "C19: the second read must reach the host");
}
crate::verif_host_stubs! { #[cfg_attr(kani, kani::unwind(9))] fn c19_read_after_partial_completed() { #[cfg(kani)] stream_read_after_partial(COMPLETED); } }
crate::verif_host_stubs! { #[cfg_attr(kani, kani::unwind(9))] fn c19_read_after_partial_cancelled() { #[cfg(kani)] stream_read_after_partial(CANCELLED); } }
crate::verif_host_stubs! { #[cfg_attr(kani, kani::unwind(9))] fn c19_read_after_peer_dropped() { #[cfg(kani)] stream_read_after_peer_dropped(); } }

/// taking the handle out of a reader (to pass it on) means the reader's drop releases nothing
crate::verif_host_stubs! {
fn c19_take_handle_transfers_ownership() {
    #[cfg(kani)]
    {
        reset();
        let r = RawStreamReader::new(RH, MockS { canonical: true, lists: false });
        vassert!(r.take_handle() == RH);
        drop(r);
        vassert!(st().drop_readable == 0, "C19: a handle that was given away is not dropped by the guest");
    }
}}
