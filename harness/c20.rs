//! C20 — futures: the readable end yields the written value exactly once; a writable end is never dropped
//! before it delivered a value or saw the reader gone (default value written instead); cancel reports the
//! outcome the host produced.
//!
//! Static-dispatch mock `FutureOps` on the Raw* types (where the logic lives); the typed wrappers
//! (`FutureWriter`, `FutureWrite`) are checked against a recording stub of `write_and_forget`.
use super::host::{self, h};
use super::super::future_support::{raw_future_new, FutureOps, RawFutureReader, RawFutureWriteCancel, RawFutureWriter};
use super::super::{BLOCKED, CANCELLED, COMPLETED, DROPPED};
use core::alloc::Layout;
use core::future::{Future, IntoFuture};
use core::task::{Context, Poll};

pub const FW: u32 = 31;
pub const FR: u32 = 32;

pub struct FLog {
    pub lower: u32,
    pub lower_val: u8,
    pub lower_dst: *mut u8,
    pub lift: u32,
    pub lift_src: *mut u8,
    pub dealloc_lists: u32,
    pub dealloc_src: *mut u8,
    pub start_write: u32,
    pub start_write_ptr: *const u8,
    pub start_read: u32,
    pub start_read_ptr: *mut u8,
    pub cancel_write: u32,
    pub cancel_read: u32,
    pub cancel_while_registered: bool,
    pub drop_writable: u32,
    pub drop_readable: u32,
    pub write_answer: u32,
    pub read_answer: u32,
    pub cancel_answer: u32,
    // host-side view of the future
    pub written: bool,         // a write completed (COMPLETED)
    pub reader_gone_seen: bool, // the writer observed DROPPED
    pub stranded_writer: bool, // drop-writable while no value delivered and reader not seen gone: the host traps
    pub write_in_flight: bool,
    pub drop_while_write_in_flight: bool,
}
impl FLog {
    pub const fn new() -> FLog {
        FLog {
            lower: 0, lower_val: 0, lower_dst: core::ptr::null_mut(), lift: 0, lift_src: core::ptr::null_mut(),
            dealloc_lists: 0, dealloc_src: core::ptr::null_mut(), start_write: 0, start_write_ptr: core::ptr::null(),
            start_read: 0, start_read_ptr: core::ptr::null_mut(), cancel_write: 0, cancel_read: 0,
            cancel_while_registered: false, drop_writable: 0, drop_readable: 0, write_answer: 0, read_answer: 0,
            cancel_answer: 0, written: false, reader_gone_seen: false, stranded_writer: false, write_in_flight: false,
            drop_while_write_in_flight: false,
        }
    }
}
pub static mut FLOG: FLog = FLog::new();
pub fn fl() -> &'static mut FLog {
    unsafe { &mut *core::ptr::addr_of_mut!(FLOG) }
}
pub fn reset() {
    host::reset();
    *fl() = FLog::new();
}
fn note_write_code(code: u32) {
    if code == COMPLETED {
        fl().written = true;
        fl().write_in_flight = false;
    } else if code == DROPPED {
        fl().reader_gone_seen = true;
        fl().write_in_flight = false;
    } else if code == CANCELLED {
        fl().write_in_flight = false;
    } else if code == BLOCKED {
        fl().write_in_flight = true;
    }
}

#[derive(Clone, Copy)]
pub struct MockF;
impl FutureOps for MockF {
    type Payload = u8;
    fn new(&mut self) -> u64 {
        ((FW as u64) << 32) | FR as u64
    }
    fn elem_layout(&mut self) -> Layout {
        unsafe { Layout::from_size_align_unchecked(2, 1) }
    }
    unsafe fn lower(&mut self, payload: u8, dst: *mut u8) {
        fl().lower += 1;
        fl().lower_val = payload;
        fl().lower_dst = dst;
        unsafe {
            *dst = payload;
            *dst.add(1) = !payload;
        }
    }
    unsafe fn dealloc_lists(&mut self, dst: *mut u8) {
        fl().dealloc_lists += 1;
        fl().dealloc_src = dst;
    }
    unsafe fn lift(&mut self, src: *mut u8) -> u8 {
        fl().lift += 1;
        fl().lift_src = src;
        unsafe {
            let v = *src;
            vassert!(*src.add(1) == !v, "C20: lifted from a location that does not hold a lowered value");
            v
        }
    }
    unsafe fn start_write(&mut self, future: u32, val: *const u8) -> u32 {
        vassert!(future == FW);
        fl().start_write += 1;
        fl().start_write_ptr = val;
        note_write_code(fl().write_answer);
        fl().write_answer
    }
    unsafe fn start_read(&mut self, future: u32, val: *mut u8) -> u32 {
        vassert!(future == FR);
        fl().start_read += 1;
        fl().start_read_ptr = val;
        if fl().read_answer == COMPLETED {
            unsafe { host_write_value(77) };
        }
        fl().read_answer
    }
    unsafe fn cancel_read(&mut self, future: u32) -> u32 {
        fl().cancel_read += 1;
        if host::registrations(future) != 0 {
            fl().cancel_while_registered = true;
        }
        if fl().cancel_answer == COMPLETED {
            unsafe { host_write_value(77) };
        }
        fl().cancel_answer
    }
    unsafe fn cancel_write(&mut self, future: u32) -> u32 {
        fl().cancel_write += 1;
        if host::registrations(future) != 0 {
            fl().cancel_while_registered = true;
        }
        note_write_code(fl().cancel_answer);
        fl().cancel_answer
    }
    unsafe fn drop_readable(&mut self, _future: u32) {
        fl().drop_readable += 1;
    }
    unsafe fn drop_writable(&mut self, _future: u32) {
        fl().drop_writable += 1;
        if fl().write_in_flight {
            fl().drop_while_write_in_flight = true;
        }
        if !fl().written && !fl().reader_gone_seen {
            fl().stranded_writer = true;
        }
    }
}
/// the host stores the transferred value into the read buffer
pub unsafe fn host_write_value(v: u8) {
    let p = fl().start_read_ptr;
    unsafe {
        *p = v;
        *p.add(1) = !v;
    }
}

// ================================================================================ writes
/// mode 0: future.write answers `code` at once; 1: BLOCKED then `code` delivered; 2: BLOCKED then cancel
/// answering `code`; 3: BLOCKED then the write is dropped and cancel-write answers `code`.
#[cfg(kani)]
fn future_write(mode: u8, code: u32) {
    reset();
    let mut task = host::mock_task(0, true);
    host::enter_task(&mut task);
    let waker = host::counting_waker();
    let mut cx = Context::from_waker(&waker);
    let (w, r) = unsafe { raw_future_new(MockF) };
    core::mem::forget(r); // the reader side is the peer's business in this scenario
    fl().write_answer = if mode == 0 { code } else { BLOCKED };
    {
        let fut = w.write(55);
        let mut fut = core::pin::pin!(fut);
        let res = fut.as_mut().poll(&mut cx);
        vassert!(fl().lower == 1 && fl().lower_val == 55 && fl().start_write == 1, "C20: the value is lowered once and future.write called once");
        vassert!(fl().start_write_ptr == fl().lower_dst as *const u8);
        match res {
            Poll::Ready(out) => {
                vassert!(mode == 0, "C20: BLOCKED cannot complete a write");
                check_write_outcome(code, out);
            }
            Poll::Pending => {
                vassert!(mode != 0);
                vassert!(host::registrations(FW) == 1);
                vassert!(fl().drop_writable == 0, "C20: writable end dropped while its write is pending");
                if mode == 1 {
                    note_write_code(code);
                    vassert!(unsafe { host::deliver(0, FW, code) });
                    match fut.as_mut().poll(&mut cx) {
                        Poll::Ready(out) => check_write_outcome(code, out),
                        Poll::Pending => vassert!(false, "C20: a delivered completion completes the write"),
                    }
                    vassert!(fl().cancel_write == 0);
                } else if mode == 2 {
                    fl().cancel_answer = code;
                    let c = fut.as_mut().cancel();
                    vassert!(fl().cancel_write == 1 && !fl().cancel_while_registered, "C20: cancel-write once, after leaving the task's set");
                    match c {
                        RawFutureWriteCancel::AlreadySent => {
                            vassert!(code == COMPLETED, "C20: AlreadySent only if the host completed the write");
                            vassert!(fl().lift == 0 && fl().dealloc_lists == 1);
                            vassert!(fl().drop_writable == 1);
                        }
                        RawFutureWriteCancel::Dropped(v) => {
                            vassert!(code == DROPPED, "C20: Dropped only if the host saw the reader gone");
                            vassert!(v == 55 && fl().lift == 1 && fl().lift_src == fl().lower_dst, "C20: the value is handed back, lifted once from its own buffer");
                            vassert!(fl().drop_writable == 1);
                        }
                        RawFutureWriteCancel::Cancelled(v, writer) => {
                            vassert!(code == CANCELLED, "C20: Cancelled only if the host cancelled the write");
                            vassert!(v == 55 && fl().lift == 1 && fl().lift_src == fl().lower_dst);
                            vassert!(fl().drop_writable == 0, "C20: a cancelled write hands the live writer back");
                            core::mem::forget(writer);
                        }
                    }
                } else if mode == 4 {
                    // the host completed the write and the event was DELIVERED to the task, but the operation is cancelled before it is
                    // polled again (a timeout, `select!` taking another branch): the delivered code is the outcome, and the host must not
                    // be asked to cancel a write that is no longer in flight (future.cancel-write on an idle end traps)
                    note_write_code(code);
                    vassert!(unsafe { host::deliver(0, FW, code) });
                    fl().cancel_answer = CANCELLED; // what a host would wrongly be asked for
                    let c = fut.as_mut().cancel();
                    vassert!(fl().cancel_write == 0, "C20: a write whose completion was already delivered is not cancelled at the host");
                    match c {
                        RawFutureWriteCancel::AlreadySent => {
                            vassert!(code == COMPLETED, "C20: AlreadySent exactly when the delivered code says the value was taken");
                            vassert!(fl().lift == 0 && fl().dealloc_lists == 1 && fl().drop_writable == 1);
                        }
                        RawFutureWriteCancel::Dropped(v) => {
                            vassert!(code == DROPPED, "C20: Dropped exactly when the delivered code says the reader is gone");
                            vassert!(v == 55 && fl().lift == 1 && fl().lift_src == fl().lower_dst && fl().drop_writable == 1);
                        }
                        RawFutureWriteCancel::Cancelled(v, writer) => {
                            vassert!(false, "C20: a delivered completion must not be reported as a cancellation (the value would be written twice)");
                            core::mem::forget(writer);
                        }
                    }
                } else {
                    fl().cancel_answer = code;
                    // dropped below
                }
            }
        }
    }
    if mode == 3 {
        vassert!(fl().cancel_write == 1 && !fl().cancel_while_registered, "C20: an unfinished write that is dropped is cancelled, after leaving the task's set");
        if code == COMPLETED {
            vassert!(fl().dealloc_lists == 1 && fl().lift == 0);
        } else {
            vassert!(fl().lift == 1 && fl().dealloc_lists == 0, "C20: the unsent value is recovered exactly once");
        }
    }
    vassert!(!fl().drop_while_write_in_flight, "C20: writable end dropped while the host still owns a pending write");
    vassert!(host::total_registrations() == 0);
    vassert!(fl().lower == 1 && fl().start_write == 1);
    vassert!(fl().lift + fl().dealloc_lists == 1, "C20: the lowered value is either consumed (lists freed) or lifted back, exactly once");
}
#[cfg(kani)]
fn check_write_outcome<T>(code: u32, out: Result<(), super::super::future_support::FutureWriteError<T>>) {
    if code == COMPLETED {
        vassert!(out.is_ok(), "C20: COMPLETED means the value was delivered");
        vassert!(fl().dealloc_lists == 1 && fl().dealloc_src == fl().lower_dst && fl().lift == 0, "C20: delivered value's lists freed once, value not lifted back");
    } else {
        vassert!(out.is_err(), "C20: DROPPED returns the value to the writer");
        vassert!(fl().lift == 1 && fl().lift_src == fl().lower_dst && fl().dealloc_lists == 0);
    }
    core::mem::forget(out);
    vassert!(fl().drop_writable == 1, "C20: after a finished write the writable end is dropped exactly once");
    vassert!(!fl().stranded_writer, "C20: writable end dropped before delivering a value or seeing the reader gone");
}
crate::verif_host_stubs! { #[cfg_attr(kani, kani::unwind(5))] fn c20_write_immediate_completed() { #[cfg(kani)] future_write(0, COMPLETED); } }
crate::verif_host_stubs! { #[cfg_attr(kani, kani::unwind(5))] fn c20_write_immediate_dropped() { #[cfg(kani)] future_write(0, DROPPED); } }
crate::verif_host_stubs! { #[cfg_attr(kani, kani::unwind(5))] fn c20_write_delivered_completed() { #[cfg(kani)] future_write(1, COMPLETED); } }
crate::verif_host_stubs! { #[cfg_attr(kani, kani::unwind(5))] fn c20_write_delivered_dropped() { #[cfg(kani)] future_write(1, DROPPED); } }
crate::verif_host_stubs! { #[cfg_attr(kani, kani::unwind(5))] fn c20_write_cancel_completed() { #[cfg(kani)] future_write(2, COMPLETED); } }
crate::verif_host_stubs! { #[cfg_attr(kani, kani::unwind(5))] fn c20_write_cancel_dropped() { #[cfg(kani)] future_write(2, DROPPED); } }
crate::verif_host_stubs! { #[cfg_attr(kani, kani::unwind(5))] fn c20_write_cancel_cancelled() { #[cfg(kani)] future_write(2, CANCELLED); } }
crate::verif_host_stubs! { #[cfg_attr(kani, kani::unwind(5))] fn c20_write_delivered_then_cancelled_completed() { #[cfg(kani)] future_write(4, COMPLETED); } }
crate::verif_host_stubs! { #[cfg_attr(kani, kani::unwind(5))] fn c20_write_delivered_then_cancelled_dropped() { #[cfg(kani)] future_write(4, DROPPED); } }
crate::verif_host_stubs! { #[cfg_attr(kani, kani::unwind(5))] fn c20_write_dropped_inflight_completed() { #[cfg(kani)] future_write(3, COMPLETED); } }
crate::verif_host_stubs! { #[cfg_attr(kani, kani::unwind(5))] fn c20_write_dropped_inflight_cancelled() { #[cfg(kani)] future_write(3, CANCELLED); } }

// ================================================================================ reads
/// mode 0: future.read answers COMPLETED at once; 1: BLOCKED then COMPLETED delivered; 2: BLOCKED then cancel
/// answering `code`; 3: BLOCKED then the read is dropped, cancel-read answering `code`.
#[cfg(kani)]
fn future_read(mode: u8, code: u32) {
    reset();
    let mut task = host::mock_task(0, true);
    host::enter_task(&mut task);
    let waker = host::counting_waker();
    let mut cx = Context::from_waker(&waker);
    let r = unsafe { RawFutureReader::new(FR, MockF) };
    fl().read_answer = if mode == 0 { code } else { BLOCKED };
    let mut got = None;
    {
        let fut = r.into_future();
        let mut fut = core::pin::pin!(fut);
        let res = fut.as_mut().poll(&mut cx);
        vassert!(fl().start_read == 1, "C20: future.read called once");
        match res {
            Poll::Ready(v) => {
                vassert!(mode == 0);
                got = Some(v);
            }
            Poll::Pending => {
                vassert!(mode != 0);
                vassert!(host::registrations(FR) == 1);
                if mode == 1 {
                    unsafe { host_write_value(77) };
                    vassert!(unsafe { host::deliver(0, FR, code) });
                    match fut.as_mut().poll(&mut cx) {
                        Poll::Ready(v) => got = Some(v),
                        Poll::Pending => vassert!(false, "C20: a delivered value completes the read"),
                    }
                } else if mode == 2 {
                    fl().cancel_answer = code;
                    match fut.as_mut().cancel() {
                        Ok(v) => {
                            vassert!(code == COMPLETED, "C20: a value only if the host completed the read");
                            got = Some(v);
                        }
                        Err(reader) => {
                            vassert!(code == CANCELLED, "C20: the reader is handed back only if the host cancelled");
                            vassert!(fl().drop_readable == 0 && fl().lift == 0);
                            vassert!(reader.take_handle() == FR);
                        }
                    }
                    vassert!(fl().cancel_read == 1 && !fl().cancel_while_registered, "C20: cancel-read once, after leaving the task's set");
                } else if mode == 4 {
                    // the host completed the read and the event was DELIVERED to the task, but the read is cancelled before it is polled
                    // again: the delivered value is the outcome (it must not be lost), and the host is not asked to cancel a finished read
                    unsafe { host_write_value(77) };
                    vassert!(unsafe { host::deliver(0, FR, code) });
                    fl().cancel_answer = CANCELLED; // what a host would wrongly be asked for
                    match fut.as_mut().cancel() {
                        Ok(v) => got = Some(v),
                        Err(reader) => {
                            vassert!(false, "C20: a delivered value must not be reported as a cancellation (the written value would be yielded zero times)");
                            core::mem::forget(reader);
                        }
                    }
                    vassert!(fl().cancel_read == 0, "C20: a read whose completion was already delivered is not cancelled at the host");
                } else {
                    fl().cancel_answer = code;
                }
            }
        }
    }
    if let Some(v) = got {
        vassert!(v == 77, "C20: the readable end yields the written value");
        vassert!(fl().lift == 1 && fl().lift_src == fl().start_read_ptr, "C20: value lifted exactly once from the read buffer");
        vassert!(fl().drop_readable == 1, "C20: after the value arrived the readable end is dropped once");
    }
    if mode == 3 {
        vassert!(fl().cancel_read == 1 && !fl().cancel_while_registered);
        vassert!(fl().drop_readable == 1, "C20: an abandoned read drops the readable end exactly once");
        vassert!(fl().lift == ((code == COMPLETED) as u32), "C20: a value that raced with the drop is lifted (and dropped) once");
    }
    vassert!(host::total_registrations() == 0);
    vassert!(fl().lift <= 1 && fl().drop_readable <= 1);
}
crate::verif_host_stubs! { #[cfg_attr(kani, kani::unwind(5))] fn c20_read_immediate() { #[cfg(kani)] future_read(0, COMPLETED); } }
crate::verif_host_stubs! { #[cfg_attr(kani, kani::unwind(5))] fn c20_read_delivered() { #[cfg(kani)] future_read(1, COMPLETED); } }
crate::verif_host_stubs! { #[cfg_attr(kani, kani::unwind(5))] fn c20_read_delivered_then_cancelled() { #[cfg(kani)] future_read(4, COMPLETED); } }
crate::verif_host_stubs! { #[cfg_attr(kani, kani::unwind(5))] fn c20_read_cancel_completed() { #[cfg(kani)] future_read(2, COMPLETED); } }
crate::verif_host_stubs! { #[cfg_attr(kani, kani::unwind(5))] fn c20_read_cancel_cancelled() { #[cfg(kani)] future_read(2, CANCELLED); } }
crate::verif_host_stubs! { #[cfg_attr(kani, kani::unwind(5))] fn c20_read_dropped_inflight_cancelled() { #[cfg(kani)] future_read(3, CANCELLED); } }
crate::verif_host_stubs! { #[cfg_attr(kani, kani::unwind(5))] fn c20_read_dropped_inflight_completed() { #[cfg(kani)] future_read(3, COMPLETED); } }

crate::verif_host_stubs! {
fn c20_reader_never_read_dropped_once() {
    #[cfg(kani)]
    {
        reset();
        let give_away: bool = kani::any();
        let r = unsafe { RawFutureReader::new(FR, MockF) };
        if give_away {
            vassert!(r.take_handle() == FR);
        }
        drop(r);
        vassert!(fl().drop_readable == (!give_away) as u32, "C20: readable end dropped once unless its handle was given away");
        vassert!(fl().start_read == 0);
    }
}}

// ================================================================================ typed wrappers
use super::super::future_support::{future_new, FutureVtable, FutureWriteCancel};

unsafe fn vt_lower(v: u8, dst: *mut u8) { unsafe { MockF.lower(v, dst) } }
unsafe fn vt_dealloc(dst: *mut u8) { unsafe { MockF.dealloc_lists(dst) } }
unsafe fn vt_lift(src: *mut u8) -> u8 { unsafe { MockF.lift(src) } }
unsafe extern "C" fn vt_start_write(f: u32, p: *const u8) -> u32 { unsafe { MockF.start_write(f, p) } }
unsafe extern "C" fn vt_start_read(f: u32, p: *mut u8) -> u32 { unsafe { MockF.start_read(f, p) } }
unsafe extern "C" fn vt_cancel_write(f: u32) -> u32 { unsafe { MockF.cancel_write(f) } }
unsafe extern "C" fn vt_cancel_read(f: u32) -> u32 { unsafe { MockF.cancel_read(f) } }
unsafe extern "C" fn vt_drop_writable(f: u32) { unsafe { MockF.drop_writable(f) } }
unsafe extern "C" fn vt_drop_readable(f: u32) { unsafe { MockF.drop_readable(f) } }
unsafe extern "C" fn vt_new() -> u64 { MockF.new() }
pub static VT: FutureVtable<u8> = FutureVtable {
    layout: unsafe { Layout::from_size_align_unchecked(2, 1) },
    lower: vt_lower,
    dealloc_lists: vt_dealloc,
    lift: vt_lift,
    start_write: vt_start_write,
    start_read: vt_start_read,
    cancel_write: vt_cancel_write,
    cancel_read: vt_cancel_read,
    drop_writable: vt_drop_writable,
    drop_readable: vt_drop_readable,
    new: vt_new,
};
fn default_value() -> u8 {
    99
}
pub static mut WAF_CALLS: u32 = 0;
pub static mut WAF_VALUE: u8 = 0;
pub static mut WAF_AFTER_DROP_WRITABLE: bool = false;
/// recording stand-in for RawFutureWriter::write_and_forget (the real one is a self-waking Arc cycle that CBMC
/// unrolls without end; it is checked on its own in the thorough tier)
pub fn waf_recorder<O: FutureOps + 'static>(me: RawFutureWriter<O>, v: O::Payload) {
    unsafe {
        WAF_CALLS += 1;
        if core::mem::size_of::<O::Payload>() == 1 {
            WAF_VALUE = *(&v as *const O::Payload as *const u8);
        }
        if fl().drop_writable != 0 {
            WAF_AFTER_DROP_WRITABLE = true;
        }
        // the deferred write takes over the writer: a value is (going to be) delivered
        fl().written = true;
    }
    core::mem::forget(me);
    core::mem::forget(v);
}
fn waf_reset() {
    unsafe {
        WAF_CALLS = 0;
        WAF_VALUE = 0;
        WAF_AFTER_DROP_WRITABLE = false;
    }
}

/// what = 0: an unwritten FutureWriter is dropped.  1: `write(v)` then dropped before ever being polled.
/// 2: polled (BLOCKED), then `cancel()` answered by `code`, and whatever comes back is dropped.
/// 3: polled (BLOCKED), then the FutureWrite is dropped (cancel-write answers `code`).
#[cfg(kani)]
fn typed_writer(what: u8, code: u32) {
    reset();
    waf_reset();
    let mut task = host::mock_task(0, true);
    host::enter_task(&mut task);
    let waker = host::counting_waker();
    let mut cx = Context::from_waker(&waker);
    let (w, r) = unsafe { future_new(default_value, &VT) };
    core::mem::forget(r);
    let mut expect_default = false;
    if what == 0 {
        drop(w);
        expect_default = true;
    } else if what == 1 {
        let fw = w.write(55);
        drop(fw);
        expect_default = true;
        vassert!(fl().start_write == 0, "C20: a write that was never polled never reaches the host");
    } else {
        fl().write_answer = BLOCKED;
        fl().cancel_answer = code;
        let fw = w.write(55);
        let mut fw = core::pin::pin!(fw);
        vassert!(fw.as_mut().poll(&mut cx).is_pending());
        if what == 2 {
            match fw.as_mut().cancel() {
                FutureWriteCancel::AlreadySent => vassert!(code == COMPLETED, "C20: AlreadySent only if the host completed the write"),
                FutureWriteCancel::Dropped(v) => vassert!(code == DROPPED && v == 55, "C20: Dropped(value) only if the reader is gone"),
                FutureWriteCancel::Cancelled(v, writer) => {
                    vassert!(code == CANCELLED && v == 55, "C20: Cancelled(value, writer) only if the host cancelled");
                    vassert!(fl().drop_writable == 0);
                    drop(writer);
                }
            }
        }
        expect_default = code == CANCELLED;
        // what == 3: `fw` dropped at the end of this block
    }
    if what >= 2 {
        vassert!(fl().cancel_write == 1 && !fl().cancel_while_registered);
    }
    unsafe {
        vassert!(WAF_CALLS == expect_default as u32, "C20: dropping an unwritten writer / unfinished write delivers the default value exactly once (and only then)");
        if expect_default {
            vassert!(WAF_VALUE == 99, "C20: the value delivered instead is the default");
            vassert!(!WAF_AFTER_DROP_WRITABLE, "C20: the default must be written before the writable end is dropped");
        }
    }
    vassert!(!fl().stranded_writer, "C20: writable end dropped before delivering a value or seeing the reader gone");
    vassert!(!fl().drop_while_write_in_flight);
    vassert!(host::total_registrations() == 0);
}
macro_rules! typed {
    ($name:ident, $what:expr, $code:expr) => {
        #[cfg_attr(kani, kani::proof)]
        #[cfg_attr(kani, kani::unwind(5))]
        #[cfg_attr(kani, kani::stub(crate::rt::async_support::cabi::wasip3_task_set, crate::rt::async_support::verif::host::wasip3_task_set))]
        #[cfg_attr(kani, kani::stub(crate::rt::async_support::future_support::RawFutureWriter::write_and_forget, crate::rt::async_support::verif::c20::waf_recorder))]
        pub fn $name() {
            #[cfg(kani)]
            typed_writer($what, $code);
        }
    };
}
typed!(c20_typed_unwritten_writer_dropped, 0, 0);
typed!(c20_typed_write_dropped_unpolled, 1, 0);
typed!(c20_typed_cancel_completed, 2, COMPLETED);
typed!(c20_typed_cancel_dropped, 2, DROPPED);
typed!(c20_typed_cancel_cancelled, 2, CANCELLED);
typed!(c20_typed_dropped_inflight_cancelled, 3, CANCELLED);
typed!(c20_typed_dropped_inflight_completed, 3, COMPLETED);
typed!(c20_typed_dropped_inflight_dropped, 3, DROPPED);

// `write_and_forget` itself was tried again in round 3 (immediate completion; blocked then delivered): CBMC does not finish
// even the immediate case in 900 s.  The waker stored in the heap-allocated operation is not a constant to symex, so every
// `Waker::wake`/`drop` fans out over all one-pointer-argument functions of the program.  It stays replaced by the recording
// stub in the typed-wrapper harnesses and is listed as not covered.
