//! C21 — async import calls: parameters' heap data freed exactly once after the callee starts, owned
//! parameters released by the guest only if cancelled before starting, results lifted exactly once on
//! return, handle dropped exactly once, only a call still in progress is cancelled.
//!
//! Drives the real `Subtask::call` future (SubtaskOps + WaitableOperation) with a mock generated-bindings
//! `Subtask` impl that logs every callback.  The status language is finite and enumerated completely.
use super::host::{self, h};
use super::super::subtask::Subtask;
use super::super::{STATUS_RETURNED, STATUS_RETURNED_CANCELLED, STATUS_STARTED, STATUS_STARTED_CANCELLED, STATUS_STARTING};
use core::alloc::Layout;
use core::future::Future;
use core::task::{Context, Poll};

pub const HANDLE: u32 = 9;
pub const RESULTS_OFFSET: usize = 2;

pub struct SLog {
    pub lower: u32,
    pub lower_dst: *mut u8,
    pub call_import: u32,
    pub results_ptr: *mut u8,
    pub dealloc_lists: u32,
    pub dealloc_own: u32,
    pub lift: u32,
    pub lift_src: *mut u8,
    pub lift_before_returned: bool,
    pub returned_seen: bool,
    pub packed: u32,
    pub lowered_value: u32,
    pub dealloc_arg_ok: bool,
}
pub static mut SLOG: SLog = SLog {
    lower: 0, lower_dst: core::ptr::null_mut(), call_import: 0, results_ptr: core::ptr::null_mut(), dealloc_lists: 0,
    dealloc_own: 0, lift: 0, lift_src: core::ptr::null_mut(), lift_before_returned: false, returned_seen: false, packed: 0,
    lowered_value: 0, dealloc_arg_ok: true,
};
fn sl() -> &'static mut SLog {
    unsafe { &mut *core::ptr::addr_of_mut!(SLOG) }
}
fn reset(packed: u32) {
    host::reset();
    *sl() = SLog {
        lower: 0, lower_dst: core::ptr::null_mut(), call_import: 0, results_ptr: core::ptr::null_mut(), dealloc_lists: 0,
        dealloc_own: 0, lift: 0, lift_src: core::ptr::null_mut(), lift_before_returned: false, returned_seen: false, packed,
        lowered_value: 0, dealloc_arg_ok: true,
    };
}

pub struct MockSub;
unsafe impl Subtask for MockSub {
    type Params = u32;
    type ParamsLower = u32;
    type Results = u32;
    fn abi_layout(&mut self) -> Layout {
        unsafe { Layout::from_size_align_unchecked(4, 2) }
    }
    fn results_offset(&mut self) -> usize {
        RESULTS_OFFSET
    }
    unsafe fn call_import(&mut self, params: u32, results: *mut u8) -> u32 {
        sl().call_import += 1;
        sl().results_ptr = results;
        if params != sl().lowered_value {
            sl().dealloc_arg_ok = false;
        }
        sl().packed
    }
    unsafe fn params_lower(&mut self, params: u32, dst: *mut u8) -> u32 {
        sl().lower += 1;
        sl().lower_dst = dst;
        sl().lowered_value = params ^ 0x55;
        params ^ 0x55
    }
    unsafe fn params_dealloc_lists(&mut self, lower: u32) {
        sl().dealloc_lists += 1;
        if lower != sl().lowered_value {
            sl().dealloc_arg_ok = false;
        }
    }
    unsafe fn params_dealloc_lists_and_own(&mut self, lower: u32) {
        sl().dealloc_own += 1;
        if lower != sl().lowered_value {
            sl().dealloc_arg_ok = false;
        }
    }
    unsafe fn results_lift(&mut self, src: *mut u8) -> u32 {
        sl().lift += 1;
        sl().lift_src = src;
        if !sl().returned_seen {
            sl().lift_before_returned = true;
        }
        // reading the results area must be a valid read of the live params/results block
        unsafe { *src as u32 }
    }
}

/// One member of the status language: initial status `s0`, then the host events `events` (concrete), then —
/// if the call has not returned — the future is dropped and `subtask.cancel` answers any status the ABI allows
/// in that state (symbolic).  The seven members below are the whole language.
#[cfg(kani)]
fn scenario(s0: u32, events: &[u32]) {
    let handle = if s0 == STATUS_RETURNED { 0 } else { HANDLE };
    reset(s0 | (handle << 4));
    let v2: bool = kani::any();
    let mut task = host::mock_task(0, v2);
    host::enter_task(&mut task);
    let waker = host::counting_waker();
    let mut cx = Context::from_waker(&waker);
    let mut m = MockSub;
    let mut status = s0;
    let mut started = s0 != STATUS_STARTING;
    let mut done = false;
    if s0 == STATUS_RETURNED {
        sl().returned_seen = true;
    }
    {
        let fut = m.call(11);
        let mut fut = core::pin::pin!(fut);
        match fut.as_mut().poll(&mut cx) {
            Poll::Ready(_) => {
                vassert!(s0 == STATUS_RETURNED, "C21: completed before the callee returned");
                done = true;
            }
            Poll::Pending => {
                vassert!(s0 != STATUS_RETURNED, "C21: RETURNED must complete the call");
                vassert!(host::registrations(HANDLE) == 1, "C21: a pending call is registered with the task");
            }
        }
        let mut i = 0;
        while i < events.len() {
            let e = events[i];
            status = e;
            started = true;
            if e == STATUS_RETURNED {
                sl().returned_seen = true;
            }
            vassert!(unsafe { host::deliver(0, HANDLE, e) });
            match fut.as_mut().poll(&mut cx) {
                Poll::Ready(_) => {
                    vassert!(e == STATUS_RETURNED, "C21: completed before the callee returned");
                    done = true;
                }
                Poll::Pending => {
                    vassert!(e != STATUS_RETURNED, "C21: RETURNED must complete the call");
                    vassert!(host::registrations(HANDLE) == 1);
                }
            }
            i += 1;
        }
        if !done {
            let c: u32 = kani::any();
            if status == STATUS_STARTING {
                kani::assume(c == STATUS_STARTED_CANCELLED || c == STATUS_RETURNED_CANCELLED || c == STATUS_RETURNED);
            } else {
                kani::assume(c == STATUS_RETURNED_CANCELLED || c == STATUS_RETURNED);
            }
            h().subtask_cancel_answer = c;
            if c == STATUS_RETURNED {
                sl().returned_seen = true;
            }
            if c != STATUS_STARTED_CANCELLED {
                started = true;
            }
            status = c;
        }
        // `fut` dropped here
    }
    vassert!(sl().lower == 1 && sl().call_import == 1, "C21: parameters lowered once, import called once");
    vassert!(!sl().lower_dst.is_null());
    vassert!(sl().results_ptr == sl().lower_dst.wrapping_add(RESULTS_OFFSET), "C21: results area = block + results_offset");
    vassert!(sl().dealloc_arg_ok, "C21: callbacks must receive the lowered parameters");
    vassert!(sl().dealloc_lists == (started as u32), "C21: parameter lists freed exactly once, iff the callee started");
    vassert!(sl().dealloc_own == ((status == STATUS_STARTED_CANCELLED) as u32), "C21: owned parameters released iff cancelled before starting");
    vassert!(sl().dealloc_lists + sl().dealloc_own == 1, "C21: exactly one of the two release paths");
    vassert!(!sl().lift_before_returned, "C21: results lifted before the callee returned");
    vassert!(sl().lift == (sl().returned_seen as u32), "C21: results lifted exactly once, iff the call returned");
    if sl().lift == 1 {
        vassert!(sl().lift_src == sl().results_ptr, "C21: results lifted from the results area");
    }
    vassert!(h().subtask_drops == ((handle != 0) as u32), "C21: subtask handle dropped exactly once");
    if handle != 0 {
        vassert!(h().subtask_dropped_handle == HANDLE);
    }
    vassert!(h().subtask_cancels == ((!done) as u32), "C21: only a call still in progress is cancelled, once");
    vassert!(!h().subtask_cancel_while_joined, "C21: cancelled while still registered with the task");
    vassert!(!h().subtask_cancel_after_drop, "C21: the subtask handle was dropped before the call was cancelled (cancel of a handle that no longer exists; drop of a call still in progress)");
    if h().subtask_cancels == 1 {
        vassert!(h().subtask_cancelled_handle == HANDLE, "C21: the cancel names the call's own handle");
    }
    vassert!(host::total_registrations() == 0);
    kani::cover!(sl().lower == 1, "scenario reaches its end");
}
#[cfg(not(kani))]
fn scenario(_s0: u32, _events: &[u32]) {}

crate::verif_host_stubs! { #[cfg_attr(kani, kani::unwind(6))] fn c21_returned_immediately() { scenario(STATUS_RETURNED, &[]); } }
crate::verif_host_stubs! { #[cfg_attr(kani, kani::unwind(6))] fn c21_started_then_dropped() { scenario(STATUS_STARTED, &[]); } }
crate::verif_host_stubs! { #[cfg_attr(kani, kani::unwind(6))] fn c21_started_then_returned() { scenario(STATUS_STARTED, &[STATUS_RETURNED]); } }
crate::verif_host_stubs! { #[cfg_attr(kani, kani::unwind(6))] fn c21_starting_then_dropped() { scenario(STATUS_STARTING, &[]); } }
crate::verif_host_stubs! { #[cfg_attr(kani, kani::unwind(6))] fn c21_starting_started_then_dropped() { scenario(STATUS_STARTING, &[STATUS_STARTED]); } }
crate::verif_host_stubs! { #[cfg_attr(kani, kani::unwind(6))] fn c21_starting_then_returned() { scenario(STATUS_STARTING, &[STATUS_RETURNED]); } }
crate::verif_host_stubs! { #[cfg_attr(kani, kani::unwind(6))] fn c21_starting_started_returned() { scenario(STATUS_STARTING, &[STATUS_STARTED, STATUS_RETURNED]); } }

/// a call that was never polled never reaches the host
crate::verif_host_stubs! {
#[cfg_attr(kani, kani::unwind(6))]
fn c21_never_polled_call_is_inert() {
    #[cfg(kani)]
    {
        reset(STATUS_STARTING | (HANDLE << 4));
        let mut m = MockSub;
        {
            let fut = m.call(11);
            let _fut = core::pin::pin!(fut);
        }
        vassert!(sl().lower == 0 && sl().call_import == 0 && h().subtask_cancels == 0 && h().subtask_drops == 0);
        vassert!(sl().dealloc_lists == 0 && sl().dealloc_own == 0 && sl().lift == 0);
    }
}}
