//! C22 — export task executor: answers each callback consistently with its state, stores the task state
//! between callbacks and clears the slot while one runs, releases the task (and its destructors) exactly once.
//! One executor step per harness, from states built through the real API; the Rust "work" is a scripted future.
use super::host::{self, h};
use super::super::{
    callback, cabi, start_task, CallbackCode, TaskState, EVENT_CANCEL, EVENT_NONE, EVENT_SUBTASK,
};
use alloc::boxed::Box;
use core::ffi::c_void;
use core::future::Future;
use core::pin::Pin;
use core::task::{Context, Poll};

pub const W1: u32 = 5;
pub const SET: u32 = 41; // first set the mock host hands out

#[derive(Copy, Clone, PartialEq)]
pub enum Step {
    Ready,
    /// register waitable W1 with the running task through the C ABI, then Pending
    PendingRegister,
    /// wake own waker, then Pending (a yield)
    PendingWake,
    /// register W1 and finish (work done but a waitable is still registered)
    ReadyButRegistered,
    /// wake own waker while W1 is registered
    PendingWakeRegistered,
    /// Pending without any reason to be polled again
    PendingIdle,
}
pub struct Script {
    pub steps: [Step; 3],
    pub polls: usize,
    pub drops: u32,
    pub ctx_null_during_poll: bool,
    pub task_set_during_poll: bool,
    pub task_set_during_drop: bool,
    pub cb_calls: u32,
    pub cb_code: u32,
    pub cb_join_calls_before: u32,
    pub cb_entry_removed_before: bool,
    pub registered: bool,
    pub unregister_on_drop: bool,
    pub unit_read_pending_during_poll: bool,
}
pub static mut SCRIPT: Script = Script::new();
impl Script {
    pub const fn new() -> Script {
        Script {
            steps: [Step::Ready; 3], polls: 0, drops: 0, ctx_null_during_poll: true, task_set_during_poll: true,
            task_set_during_drop: true, cb_calls: 0, cb_code: 0, cb_join_calls_before: 0, cb_entry_removed_before: true,
            registered: false, unregister_on_drop: false, unit_read_pending_during_poll: false,
        }
    }
}
pub fn sc() -> &'static mut Script {
    unsafe { &mut *core::ptr::addr_of_mut!(SCRIPT) }
}
pub fn reset(steps: [Step; 3]) {
    host::reset();
    *sc() = Script::new();
    sc().steps = steps;
}
static mut CB_SLOT: u8 = 0;
unsafe extern "C" fn body_cb(ptr: *mut c_void, code: u32) {
    sc().cb_calls += 1;
    sc().cb_code = code;
    sc().cb_join_calls_before = h().join_calls;
    // the waitable has left every set before its callback runs
    if host::joined_set_of(W1) != 0 {
        sc().cb_entry_removed_before = false;
    }
    sc().registered = false;
}
/// what an import binding does to wait: register with whatever task is current, through the C ABI
unsafe fn register_with_current_task(w: u32) {
    unsafe {
        let t = host::wasip3_task_set(core::ptr::null_mut());
        assert!(!t.is_null());
        let prev = ((*t).waitable_register)((*t).ptr, w, body_cb, core::ptr::addr_of_mut!(CB_SLOT).cast());
        assert!(prev.is_null() || prev == core::ptr::addr_of_mut!(CB_SLOT).cast());
        host::wasip3_task_set(t);
    }
    sc().registered = true;
}
unsafe fn unregister_with_current_task(w: u32) {
    unsafe {
        let t = host::wasip3_task_set(core::ptr::null_mut());
        assert!(!t.is_null());
        ((*t).waitable_unregister)((*t).ptr, w);
        host::wasip3_task_set(t);
    }
    sc().registered = false;
}
pub struct Body;
impl Future for Body {
    type Output = ();
    fn poll(self: Pin<&mut Self>, cx: &mut Context<'_>) -> Poll<()> {
        let s = sc();
        if !h().ctx.is_null() {
            s.ctx_null_during_poll = false;
        }
        if h().cur_task.is_null() {
            s.task_set_during_poll = false;
        }
        if h().unit_read_pending {
            s.unit_read_pending_during_poll = true;
        }
        let step = if s.polls < 3 { s.steps[s.polls] } else { Step::Ready };
        s.polls += 1;
        match step {
            Step::Ready => Poll::Ready(()),
            Step::PendingRegister => {
                unsafe { register_with_current_task(W1) };
                Poll::Pending
            }
            Step::PendingWake => {
                cx.waker().wake_by_ref();
                Poll::Pending
            }
            Step::ReadyButRegistered => {
                unsafe { register_with_current_task(W1) };
                Poll::Ready(())
            }
            Step::PendingWakeRegistered => {
                if !s.registered {
                    unsafe { register_with_current_task(W1) };
                }
                cx.waker().wake_by_ref();
                Poll::Pending
            }
            Step::PendingIdle => Poll::Pending,
        }
    }
}
impl Drop for Body {
    fn drop(&mut self) {
        sc().drops += 1;
        if h().cur_task.is_null() {
            sc().task_set_during_drop = false;
        } else if sc().unregister_on_drop && sc().registered {
            unsafe { unregister_with_current_task(W1) };
        }
    }
}

macro_rules! exec_harness {
    ($(#[$m:meta])* fn $name:ident() $body:block) => {
        #[cfg_attr(kani, kani::proof)]
        #[cfg_attr(kani, kani::unwind(3))]
        #[cfg_attr(kani, kani::stub(crate::rt::async_support::cabi::wasip3_task_set, crate::rt::async_support::verif::host::wasip3_task_set))]
        #[cfg_attr(kani, kani::stub(crate::rt::async_support::waitable_set::new, crate::rt::async_support::verif::host::waitable_set_new))]
        #[cfg_attr(kani, kani::stub(crate::rt::async_support::waitable_set::drop, crate::rt::async_support::verif::host::waitable_set_drop))]
        #[cfg_attr(kani, kani::stub(crate::rt::async_support::waitable_set::join, crate::rt::async_support::verif::host::waitable_join))]
        #[cfg_attr(kani, kani::stub(crate::rt::async_support::waitable_set::wait, crate::rt::async_support::verif::host::waitable_set_wait))]
        #[cfg_attr(kani, kani::stub(crate::rt::async_support::waitable_set::poll, crate::rt::async_support::verif::host::waitable_set_poll))]
        #[cfg_attr(kani, kani::stub(std::io::_eprint, crate::rt::async_support::verif::c22::no_eprint))]
        #[cfg_attr(kani, kani::stub(crate::rt::async_support::task_state::get, crate::rt::async_support::verif::c22::ctx_get))]
        #[cfg_attr(kani, kani::stub(crate::rt::async_support::task_state::set, crate::rt::async_support::verif::c22::ctx_set))]
        $(#[$m])*
        pub fn $name() $body
    };
}
pub fn no_eprint(_args: core::fmt::Arguments<'_>) {}
pub fn ctx_get() -> *mut u8 {
    unsafe { host::context_get() }
}
pub unsafe fn ctx_set(v: *mut u8) {
    unsafe { host::context_set(v) }
}

// -------------------------------------------------------------------------------- encode
#[cfg_attr(kani, kani::proof)]
pub fn c22_callback_code_encoding() {
    #[cfg(kani)]
    {
        vassert!(CallbackCode::Exit.encode() == 0, "C22: EXIT is 0");
        vassert!(CallbackCode::Yield.encode() == 1, "C22: YIELD is 1");
        let s: u32 = kani::any();
        kani::assume(s < (1 << 28));
        let e = CallbackCode::Wait(s).encode();
        vassert!(e & 0xf == 2 && e >> 4 == s, "C22: WAIT is 2 with the waitable set in the upper 28 bits");
    }
}

// -------------------------------------------------------------------------------- one executor step per harness
// Every harness performs exactly ONE step (`TaskState::callback`, `start_task`, `callback`, or drop) from a pre-state that is
// constructed directly: two callbacks in one harness do not finish under CBMC (measured: one step 3-13 s, two steps > 600 s).
// The pre-states are exactly the post-states established by the other harnesses (their assertions say so), which is the
// induction over the number of events.
#[cfg(kani)]
fn any_u32() -> u32 { kani::any() }
#[cfg(not(kani))]
fn any_u32() -> u32 { 0 }
#[cfg(kani)]
fn any_bool() -> bool { kani::any() }
#[cfg(not(kani))]
fn any_bool() -> bool { false }

/// pre-state "the work waits on waitable W1": what `c22_pending_on_waitable_waits_on_own_set` ends in
fn task_waiting_on_w1(steps: [Step; 3], tasks_finished: bool) -> TaskState<'static> {
    reset(steps);
    let mut st = TaskState::new(Box::pin(Body));
    if tasks_finished {
        // the Rust work has already completed (and was dropped) in an earlier callback
        st.tasks = Default::default();
    }
    st.shared.waitable_register(W1, body_cb, core::ptr::addr_of_mut!(CB_SLOT).cast());
    sc().registered = true;
    st
}

exec_harness! { fn c22_ready_without_waitables_exits() {
    reset([Step::Ready; 3]);
    let mut st = TaskState::new(Box::pin(Body));
    let rc = st.callback(EVENT_NONE, 0, 0);
    vassert!(rc == CallbackCode::Exit, "C22: no Rust work and no waitables left => EXIT");
    vassert!(sc().polls == 1 && sc().task_set_during_poll);
    vassert!(h().cur_task.is_null(), "C22: the previous task pointer is restored after the callback");
    vassert!(sc().drops == 1, "C22: a finished future is dropped once");
    drop(st);
    vassert!(sc().drops == 1 && h().sets_new == h().sets_dropped);
}}

exec_harness! { fn c22_pending_on_waitable_waits_on_own_set() {
    reset([Step::PendingRegister, Step::Ready, Step::Ready]);
    let mut st = TaskState::new(Box::pin(Body));
    let rc = st.callback(EVENT_NONE, 0, 0);
    vassert!(rc == CallbackCode::Wait(SET), "C22: something pending and not woken => WAIT on the task's own set");
    vassert!(h().sets_new == 1 && host::joined_set_of(W1) == SET, "C22: the waitable is joined to the task's own waitable set");
    vassert!(st.remaining_work());
    vassert!(sc().drops == 0 && sc().polls == 1);
    core::mem::forget(st);
}}

exec_harness! { fn c22_event_is_delivered_once_then_exit() {
    let mut st = task_waiting_on_w1([Step::Ready; 3], false);
    vassert!(host::joined_set_of(W1) == SET && st.remaining_work());
    // the host reports the event for W1 with any code
    let code: u32 = any_u32();
    let rc = st.callback(EVENT_SUBTASK, W1, code);
    vassert!(sc().cb_calls == 1 && sc().cb_code == code, "C22: the completion is delivered to its callback exactly once with the host's code");
    vassert!(sc().cb_entry_removed_before, "C22: the waitable leaves the set before its callback runs");
    vassert!(host::joined_set_of(W1) == 0);
    vassert!(sc().polls == 1, "C22: the work is polled again after the event");
    vassert!(rc == CallbackCode::Exit, "C22: work finished and nothing registered => EXIT");
    vassert!(!st.remaining_work());
    core::mem::forget(st);
}}

exec_harness! { fn c22_task_drop_releases_set_once() {
    let mut st = task_waiting_on_w1([Step::Ready; 3], false);
    sc().unregister_on_drop = true;
    drop(st);
    vassert!(sc().drops == 1 && sc().task_set_during_drop, "C22: destructors run once, with the task installed so they can unregister");
    vassert!(host::joined_set_of(W1) == 0 && h().sets_new == 1 && h().sets_dropped == 1, "C22: the task's waitable set is dropped exactly once");
}}

exec_harness! { fn c22_woken_during_poll_yields() {
    reset([Step::PendingWake, Step::Ready, Step::Ready]);
    let mut st = TaskState::new(Box::pin(Body));
    let rc = st.callback(EVENT_NONE, 0, 0);
    vassert!(rc == CallbackCode::Yield, "C22: woken during polling with nothing else to report => YIELD");
    vassert!(h().poll_calls == 0, "C22: no waitables => the set is not polled");
    vassert!(sc().polls == 1 && sc().drops == 0);
    core::mem::forget(st);
}}

exec_harness! { fn c22_finished_work_with_registered_waitable_waits() {
    reset([Step::ReadyButRegistered, Step::Ready, Step::Ready]);
    let mut st = TaskState::new(Box::pin(Body));
    let rc = st.callback(EVENT_NONE, 0, 0);
    vassert!(rc == CallbackCode::Wait(SET), "C22: EXIT only when no registered waitables remain");
    vassert!(sc().drops == 1 && sc().polls == 1);
    core::mem::forget(st);
}}

exec_harness! { fn c22_finished_work_last_event_exits_without_polling() {
    let mut st = task_waiting_on_w1([Step::Ready; 3], true);
    let before = sc().drops;
    let rc = st.callback(EVENT_SUBTASK, W1, 2);
    vassert!(sc().cb_calls == 1 && sc().cb_code == 2);
    vassert!(rc == CallbackCode::Exit, "C22: the last registered waitable completed and no work remains => EXIT");
    vassert!(sc().polls == 0, "C22: a finished future is not polled again");
    core::mem::forget(st);
}}

exec_harness! { fn c22_woken_with_waitables_polls_set_then_yields() {
    reset([Step::PendingWakeRegistered, Step::PendingWakeRegistered, Step::Ready]);
    let mut st = TaskState::new(Box::pin(Body));
    let rc = st.callback(EVENT_NONE, 0, 0);
    vassert!(h().poll_calls == 1, "C22: woken with waitables registered => poll the set before yielding");
    vassert!(sc().polls == 1 && sc().cb_calls == 0);
    vassert!(rc == CallbackCode::Yield, "C22: woken during polling and the set has nothing to report => YIELD");
    core::mem::forget(st);
}}

exec_harness! { fn c22_woken_with_ready_event_delivers_then_polls_again() {
    reset([Step::PendingWakeRegistered, Step::PendingWakeRegistered, Step::Ready]);
    let code = any_u32();
    h().poll_answer = (EVENT_SUBTASK, W1, code);
    let mut st = TaskState::new(Box::pin(Body));
    let rc = st.callback(EVENT_NONE, 0, 0);
    vassert!(h().poll_calls >= 1);
    vassert!(sc().cb_calls == 1 && sc().cb_code == code && sc().cb_entry_removed_before, "C22: an event found while yielding is delivered once");
    vassert!(sc().polls == 2, "C22: ... and the work is polled again");
    vassert!(rc == CallbackCode::Yield);
    core::mem::forget(st);
}}

exec_harness! { fn c22_cancel_event_exits_without_polling() {
    let mut st = task_waiting_on_w1([Step::PendingIdle; 3], false);
    let rc = st.callback(EVENT_CANCEL, 0, 0);
    vassert!(rc == CallbackCode::Exit, "C22: cancellation => EXIT");
    vassert!(sc().polls == 0, "C22: cancellation does not poll the work again");
    vassert!(sc().drops == 0, "C22: the caller releases the task (checked in c22_callback_wrapper_*)");
    core::mem::forget(st);
}}

// -------------------------------------------------------------------------------- wrappers + context slot
exec_harness! { fn c22_start_task_stores_state_and_answers_like_first_callback() {
    reset([Step::PendingRegister, Step::PendingWake, Step::Ready]);
    let rc = start_task(Body);
    vassert!(rc as u32 == CallbackCode::Wait(SET).encode(), "C22: start_task answers like the first callback");
    vassert!(sc().ctx_null_during_poll, "C22: the state slot is empty while a callback runs");
    vassert!(!h().ctx.is_null(), "C22: task state is stored between callbacks");
    vassert!(sc().drops == 0 && sc().polls == 1);
}}

exec_harness! { fn c22_start_task_that_finishes_releases_everything() {
    reset([Step::Ready; 3]);
    let rc = start_task(Body);
    vassert!(rc as u32 == CallbackCode::Exit.encode());
    vassert!(h().ctx.is_null(), "C22: after EXIT the slot stays empty");
    vassert!(sc().drops == 1 && sc().ctx_null_during_poll, "C22: the task and its future are released exactly once on exit");
}}

/// pre-state "between callbacks": the boxed task state sits in the context slot (what start_task / a non-exiting callback leave)
fn stored_task(steps: [Step; 3]) -> *mut u8 {
    let st = task_waiting_on_w1(steps, false);
    let p: *mut u8 = Box::into_raw(Box::new(st)).cast();
    h().ctx = p;
    p
}

exec_harness! { fn c22_callback_wrapper_puts_state_back_unless_exit() {
    let stored = stored_task([Step::PendingWake, Step::Ready, Step::Ready]);
    let rc = unsafe { callback(EVENT_SUBTASK, W1, 0) };
    vassert!(rc == CallbackCode::Yield.encode());
    vassert!(sc().ctx_null_during_poll && h().ctx == stored, "C22: the same state is put back after a non-exiting callback");
    vassert!(sc().drops == 0 && sc().cb_calls == 1);
}}

exec_harness! { fn c22_callback_wrapper_releases_once_on_exit() {
    let stored = stored_task([Step::Ready; 3]);
    let rc = unsafe { callback(EVENT_SUBTASK, W1, 0) };
    vassert!(rc == CallbackCode::Exit.encode());
    vassert!(h().ctx.is_null(), "C22: after EXIT the slot stays empty");
    vassert!(sc().drops == 1, "C22: the task and its future are released exactly once on exit");
    vassert!(sc().polls == 1 && sc().ctx_null_during_poll);
    vassert!(h().sets_new == 1 && h().sets_dropped == 1);
}}

exec_harness! { fn c22_callback_wrapper_cancel_releases_once() {
    let stored = stored_task([Step::PendingIdle; 3]);
    sc().unregister_on_drop = true;
    let rc = unsafe { callback(EVENT_CANCEL, 0, 0) };
    vassert!(rc == CallbackCode::Exit.encode());
    vassert!(h().ctx.is_null());
    vassert!(sc().drops == 1 && sc().task_set_during_drop, "C22: cancellation releases the task once, destructors see the task installed");
    vassert!(sc().polls == 0);
    vassert!(host::joined_set_of(W1) == 0 && h().sets_dropped == 1);
}}


// -------------------------------------------------------------------------------- the C-ABI registration entry points
// SharedTaskState::{waitable_register, waitable_unregister} keep the task's map and the host's waitable set in step and
// hand back the previously registered pointer (what WaitableOperation relies on under C18).
exec_harness! { fn c22_register_unregister_keep_map_and_set_in_step() {
    reset([Step::Ready; 3]);
    let st = TaskState::new(Box::pin(Body));
    let p1: *mut c_void = core::ptr::addr_of_mut!(CB_SLOT).cast();
    static mut OTHER: u8 = 0;
    let p2: *mut c_void = core::ptr::addr_of_mut!(OTHER).cast();
    vassert!(!st.remaining_work());
    let prev = st.shared.waitable_register(W1, body_cb, p1);
    vassert!(prev.is_null(), "C22: first registration has no previous pointer");
    vassert!(host::joined_set_of(W1) == SET && st.remaining_work(), "C22: registered => joined to the task's own set and counted as remaining work");
    let prev = st.shared.waitable_register(W1, body_cb, p2);
    vassert!(prev == p1, "C22: re-registration returns the pointer it replaces");
    vassert!(host::joined_set_of(W1) == SET && h().sets_new == 1);
    let prev = st.shared.waitable_unregister(W1);
    vassert!(prev == p2, "C22: unregistering returns the registered pointer");
    vassert!(host::joined_set_of(W1) == 0 && !st.remaining_work(), "C22: unregistered => removed from the set and from the map");
    let prev = st.shared.waitable_unregister(W1);
    vassert!(prev.is_null(), "C22: unregistering something not registered returns null");
    core::mem::forget(st);
}}


// A pending operation holds the task through the C-ABI vtable (`clone` when it registers, `drop` when it is done).  The two must
// balance exactly: a reference that is never given back keeps SharedTaskState - and with it the task's waitable set - alive for
// ever after the task has exited ("released exactly once on exit or cancellation").
exec_harness! { fn c22_task_handle_clone_and_drop_balance_set_released_once() {
    let mut st = task_waiting_on_w1([Step::Ready; 3], false);
    let raw: *mut c_void = alloc::sync::Arc::as_ptr(&st.shared).cast_mut().cast();
    let before = alloc::sync::Arc::strong_count(&st.shared);
    let handle = unsafe { (super::super::SharedTaskState::CABI_VTABLE.clone)(raw) };
    vassert!(handle == raw && alloc::sync::Arc::strong_count(&st.shared) == before + 1, "C22: a task handle taken through the C ABI is exactly one more strong reference to the same state");
    unsafe { (super::super::SharedTaskState::CABI_VTABLE.drop)(handle) };
    vassert!(alloc::sync::Arc::strong_count(&st.shared) == before, "C22: giving the handle back releases exactly that reference");
    sc().unregister_on_drop = true;
    drop(st);
    vassert!(sc().drops == 1 && h().sets_new == 1 && h().sets_dropped == 1, "C22: with the task and every handle gone, the shared state is released and the waitable set dropped exactly once");
}}

// -------------------------------------------------------------------------------- thorough tier: a whole history in one harness
// start_task (waits on W1) -> the host reports W1's event (work wakes itself: YIELD) -> EVENT_NONE (work finishes: EXIT).
// Three executor steps in one CBMC run; the single-step obligations above are the deciding ones, this is the composed check.
exec_harness! { fn c22t_three_step_history_start_event_yield_exit() {
    reset([Step::PendingRegister, Step::PendingWake, Step::Ready]);
    let rc = start_task(Body);
    vassert!(rc as u32 == CallbackCode::Wait(SET).encode(), "C22: start_task answers like the first callback");
    vassert!(sc().ctx_null_during_poll && !h().ctx.is_null());
    let stored = h().ctx;
    let rc = unsafe { callback(EVENT_SUBTASK, W1, 0) };
    vassert!(rc == CallbackCode::Yield.encode());
    vassert!(sc().cb_calls == 1 && sc().cb_entry_removed_before);
    vassert!(sc().ctx_null_during_poll && h().ctx == stored, "C22: the same state is put back after a non-exiting callback");
    let rc = unsafe { callback(EVENT_NONE, 0, 0) };
    vassert!(rc == CallbackCode::Exit.encode());
    vassert!(h().ctx.is_null() && sc().drops == 1 && sc().polls == 3, "C22: released exactly once on exit");
    vassert!(h().sets_new == 1 && h().sets_dropped == 1);
}}

// -------------------------------------------------------------------------------- block_on (the synchronous driver loop)
use super::super::block_on;
exec_harness! { fn c22_block_on_ready_future_returns_without_waiting() {
    reset([Step::Ready; 3]);
    let v = block_on(async { Body.await; 7u32 });
    vassert!(v == 7 && sc().polls == 1 && sc().drops == 1);
    vassert!(h().wait_calls == 0 && h().poll_calls == 0, "C22: nothing pending => no wait");
    vassert!(h().sets_new == h().sets_dropped);
}}
exec_harness! { fn c22_block_on_waits_on_own_set_until_the_event_then_returns() {
    reset([Step::PendingRegister, Step::Ready, Step::Ready]);
    let code = any_u32();
    h().wait_answer = (EVENT_SUBTASK, W1, code);
    let v = block_on(async { Body.await; 7u32 });
    vassert!(v == 7 && sc().polls == 2 && sc().drops == 1);
    vassert!(h().wait_calls == 1, "C22: pending and not woken => one waitable-set.wait on the task's own set");
    vassert!(sc().cb_calls == 1 && sc().cb_code == code && sc().cb_entry_removed_before, "C22: the event from wait is delivered once, after leaving the set");
    vassert!(host::joined_set_of(W1) == 0 && h().sets_new == 1 && h().sets_dropped == 1);
}}

// block_on with a body that only yields (wakes itself, e.g. `yield_async().await`) and never registered a waitable: the executor answers
// YIELD, there is no waitable set to poll, and the driver must simply call back with no event - not abort.
exec_harness! { fn c22_block_on_yield_without_any_waitable_returns() {
    reset([Step::PendingWake, Step::Ready, Step::Ready]);
    let v = block_on(async { Body.await; 9u32 });
    vassert!(v == 9 && sc().polls == 2 && sc().drops == 1, "C22: a body that yields once is polled again and finishes");
    vassert!(h().wait_calls == 0 && h().sets_new == h().sets_dropped, "C22: nothing was ever registered: nothing to wait on, no set left behind");
}}

// two registered waitables: EXIT only after both completed; WAIT on the own set in between
exec_harness! { fn c22_two_waitables_exit_only_after_both_completed() {
    let mut st = task_waiting_on_w1([Step::Ready; 3], true);
    const W2: u32 = 6;
    static mut SLOT2: u8 = 0;
    st.shared.waitable_register(W2, body_cb, core::ptr::addr_of_mut!(SLOT2).cast());
    vassert!(host::joined_set_of(W2) == SET);
    let first_is_w1 = any_bool();
    let (a, b) = if first_is_w1 { (W1, W2) } else { (W2, W1) };
    let rc = st.callback(EVENT_SUBTASK, a, 1);
    vassert!(sc().cb_calls == 1 && host::joined_set_of(a) == 0 && host::joined_set_of(b) == SET);
    vassert!(rc == CallbackCode::Wait(SET), "C22: a registered waitable remains => WAIT on the task's own set, not EXIT");
    let rc = st.callback(EVENT_SUBTASK, b, 2);
    vassert!(sc().cb_calls == 2 && sc().cb_code == 2);
    vassert!(rc == CallbackCode::Exit, "C22: the last registered waitable completed and no work remains => EXIT");
    vassert!(sc().polls == 0 && !st.remaining_work());
    core::mem::forget(st);
}}
