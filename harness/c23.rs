//! C23 — cross-task wakeups: one wakeup item per SLEEPING->WOKEN edge, repeated wakes coalesced, the pending
//! wakeup read is cancelled (after leaving the waitable set) before the task polls again or is destroyed.
//! Feature `inter-task-wakeup`.  One operation per harness, from states built through the real API.
use super::c22::{self, sc, Body, Step, SET};
use super::host::{self, h, UNIT_R, UNIT_W};
use super::super::{
    CallbackCode, TaskState, EVENT_NONE, EVENT_STREAM_READ, SLEEP_STATE_POLLING, SLEEP_STATE_SLEEPING, SLEEP_STATE_WOKEN,
};
use super::super::inter_task_wakeup::verif_peek as peek;
use alloc::boxed::Box;
use alloc::sync::Arc;
use alloc::task::Wake;
use core::sync::atomic::Ordering;

macro_rules! itw_harness {
    ($(#[$m:meta])* fn $name:ident() $body:block) => {
        #[cfg_attr(kani, kani::proof)]
        #[cfg_attr(kani, kani::unwind(3))]
        #[cfg_attr(kani, kani::stub(crate::rt::async_support::cabi::wasip3_task_set, crate::rt::async_support::verif::host::wasip3_task_set))]
        #[cfg_attr(kani, kani::stub(crate::rt::async_support::waitable_set::new, crate::rt::async_support::verif::host::waitable_set_new))]
        #[cfg_attr(kani, kani::stub(crate::rt::async_support::waitable_set::drop, crate::rt::async_support::verif::host::waitable_set_drop))]
        #[cfg_attr(kani, kani::stub(crate::rt::async_support::waitable_set::join, crate::rt::async_support::verif::host::waitable_join))]
        #[cfg_attr(kani, kani::stub(crate::rt::async_support::waitable_set::wait, crate::rt::async_support::verif::host::waitable_set_wait))]
        #[cfg_attr(kani, kani::stub(crate::rt::async_support::waitable_set::poll, crate::rt::async_support::verif::host::waitable_set_poll))]
        #[cfg_attr(kani, kani::stub(std::io::_eprint, crate::rt::async_support::verif::c22::no_eprint))]
        #[cfg_attr(kani, kani::stub(crate::rt::async_support::unit_stream::unit_new, crate::rt::async_support::verif::host::unit_new))]
        #[cfg_attr(kani, kani::stub(crate::rt::async_support::unit_stream::unit_write, crate::rt::async_support::verif::host::unit_write))]
        #[cfg_attr(kani, kani::stub(crate::rt::async_support::unit_stream::unit_read, crate::rt::async_support::verif::host::unit_read))]
        #[cfg_attr(kani, kani::stub(crate::rt::async_support::unit_stream::unit_cancel_read, crate::rt::async_support::verif::host::unit_cancel_read))]
        #[cfg_attr(kani, kani::stub(crate::rt::async_support::unit_stream::unit_cancel_write, crate::rt::async_support::verif::host::unit_cancel_write))]
        #[cfg_attr(kani, kani::stub(crate::rt::async_support::unit_stream::unit_drop_readable, crate::rt::async_support::verif::host::unit_drop_readable))]
        #[cfg_attr(kani, kani::stub(crate::rt::async_support::unit_stream::unit_drop_writable, crate::rt::async_support::verif::host::unit_drop_writable))]
        $(#[$m])*
        pub fn $name() $body
    };
}

fn no_host_trap() {
    vassert!(!h().unit_double_read, "C23: a second wakeup read was started while one is pending (host traps)");
    vassert!(!h().unit_cancel_read_while_joined, "C23: wakeup read cancelled while its stream is still in a waitable set (host traps)");
    vassert!(!h().unit_cancel_read_without_read, "C23: cancel-read without a pending wakeup read (host traps)");
    vassert!(!h().unit_drop_readable_while_reading, "C23: wakeup stream dropped while its read is pending (host traps)");
}

/// Invariant tying the runtime's flag to the host: `stream_reading` <=> the host has a pending unit read, and then
/// the stream's readable end is joined to the task's own waitable set.
fn inv(st: &TaskState<'_>) {
    vassert!(peek::stream_reading(&st.inter_task_wakeup) == h().unit_read_pending, "C23: stream_reading flag out of sync with the host's pending read");
    if h().unit_read_pending {
        vassert!(host::joined_set_of(UNIT_R) == SET, "C23: a pending wakeup read is in the task's own waitable set");
    }
    vassert!(h().unit_new <= 1, "C23: the wakeup stream is created at most once per task");
    // SLEEPING is the state in which a wake writes an item: it may only be entered with a read pending to receive it
    if st.shared.sleep_state.load(Ordering::Relaxed) == SLEEP_STATE_SLEEPING {
        vassert!(h().unit_read_pending, "C23: the task is marked SLEEPING although no wakeup read is pending (a wake would write an item nobody reads, or trap)");
    }
}

// 1. going to sleep: from (no stream) and from (stream exists, no read pending) exactly one read is started, the stream is
//    created at most once and joined to the task's own set; from (read already pending) nothing happens.
itw_harness! { fn c23_sleep_starts_exactly_one_read() {
    #[cfg(kani)]
    {
        c22::reset([Step::PendingIdle; 3]);
        let mut st = TaskState::new(Box::pin(Body));
        let again: bool = kani::any();
        st.read_inter_task_stream();
        vassert!(h().unit_new == 1 && h().unit_reads == 1, "C23: first sleep creates the stream and starts one read");
        inv(&st);
        if again {
            // a second request while the read is pending is deduplicated
            st.read_inter_task_stream();
            vassert!(h().unit_reads == 1, "C23: at most one wakeup read outstanding");
            inv(&st);
        }
        no_host_trap();
        // destroying the task cancels the read, after leaving the set, before the stream is dropped
        drop(st);
        vassert!(h().unit_cancel_reads == 1 && !h().unit_read_pending, "C23: the pending wakeup read is cancelled before the task is destroyed");
        vassert!(host::joined_set_of(UNIT_R) == 0);
        vassert!(h().unit_drop_readable == 1 && h().unit_drop_writable == 1);
        no_host_trap();
        kani::cover!(again);
    }
}}

// 2. cancel: with a pending read -> join(h, 0) strictly before cancel-read, exactly one cancel, flag cleared;
//    without -> no host call at all.  Afterwards a new sleep starts a fresh read on the SAME stream.
itw_harness! { fn c23_cancel_leaves_set_first_then_cancels_once() {
    #[cfg(kani)]
    {
        c22::reset([Step::PendingIdle; 3]);
        let mut st = TaskState::new(Box::pin(Body));
        let reading: bool = kani::any();
        if reading {
            st.read_inter_task_stream();
        }
        let joins_before = h().join_calls;
        st.cancel_inter_task_stream_read();
        if reading {
            vassert!(h().unit_cancel_reads == 1, "C23: a pending wakeup read is cancelled exactly once");
            vassert!(h().join_calls == joins_before + 1 && host::joined_set_of(UNIT_R) == 0, "C23: the stream leaves the waitable set");
        } else {
            vassert!(h().unit_cancel_reads == 0 && h().join_calls == joins_before, "C23: nothing to cancel");
        }
        inv(&st);
        no_host_trap();
        st.cancel_inter_task_stream_read();
        vassert!(h().unit_cancel_reads == if reading { 1 } else { 0 }, "C23: cancel is idempotent");
        st.read_inter_task_stream();
        vassert!(h().unit_new == 1, "C23: the stream is reused");
        vassert!(h().unit_reads == if reading { 2 } else { 1 });
        inv(&st);
        no_host_trap();
        core::mem::forget(st);
        kani::cover!(reading);
        kani::cover!(!reading);
    }
}}

// 3. the host reports the wakeup event: consumed by the runtime (no user callback looked up), flag cleared; any other
//    waitable is not consumed and leaves the flag alone.
itw_harness! { fn c23_wakeup_event_consumed_once() {
    #[cfg(kani)]
    {
        c22::reset([Step::PendingIdle; 3]);
        let mut st = TaskState::new(Box::pin(Body));
        let have_stream: bool = kani::any();
        if have_stream {
            st.read_inter_task_stream();
        }
        let w: u32 = kani::any();
        let code: u32 = kani::any();
        let consumed = st.inter_task_wakeup.consume_waitable_event(w, code);
        vassert!(consumed == (have_stream && w == UNIT_R), "C23: exactly the wakeup stream's event is consumed by the runtime");
        if consumed {
            vassert!(!peek::stream_reading(&st.inter_task_wakeup), "C23: the read completed: no read is pending any more");
        } else {
            vassert!(peek::stream_reading(&st.inter_task_wakeup) == have_stream);
        }
        core::mem::forget(st);
        kani::cover!(consumed);
        kani::cover!(have_stream && !consumed);
    }
}}

// 4. the waker: over EVERY u32 sleep state.  SLEEPING -> exactly one item written, state WOKEN; POLLING / WOKEN -> nothing
//    written (coalesced), state WOKEN; anything else is rejected (panic) rather than written.
itw_harness! { fn c23_wake_writes_one_item_per_sleep() {
    #[cfg(kani)]
    {
        c22::reset([Step::PendingIdle; 3]);
        let mut st = TaskState::new(Box::pin(Body));
        st.read_inter_task_stream(); // the task went to sleep once: the waker side of the stream exists
        let s: u32 = kani::any();
        kani::assume(s == SLEEP_STATE_POLLING || s == SLEEP_STATE_WOKEN || s == SLEEP_STATE_SLEEPING);
        st.shared.sleep_state.store(s, Ordering::Relaxed);
        let twice: bool = kani::any();
        st.shared.wake_by_ref();
        vassert!(st.shared.sleep_state.load(Ordering::Relaxed) == SLEEP_STATE_WOKEN, "C23: after a wake the task is marked woken");
        let expect = if s == SLEEP_STATE_SLEEPING { 1 } else { 0 };
        vassert!(h().unit_writes == expect, "C23: exactly one wakeup item per sleep, none while polling or already woken");
        if twice {
            st.shared.wake_by_ref();
            Arc::clone(&st.shared).wake();
            vassert!(h().unit_writes == expect, "C23: repeated wakes before the next poll are coalesced");
        }
        core::mem::forget(st);
        kani::cover!(s == SLEEP_STATE_SLEEPING && twice);
        kani::cover!(s == SLEEP_STATE_POLLING);
    }
}}

// 4b. a sleep state outside the three defined ones never produces a write: the runtime panics first.
itw_harness! { #[cfg_attr(kani, kani::should_panic)] fn c23_wake_rejects_undefined_sleep_state() {
    #[cfg(kani)]
    {
        c22::reset([Step::PendingIdle; 3]);
        let mut st = TaskState::new(Box::pin(Body));
        st.read_inter_task_stream();
        let s: u32 = kani::any();
        kani::assume(s != SLEEP_STATE_POLLING && s != SLEEP_STATE_WOKEN && s != SLEEP_STATE_SLEEPING);
        st.shared.sleep_state.store(s, Ordering::Relaxed);
        st.shared.wake_by_ref();
        // not reached
        vassert!(h().unit_writes == 0);
        core::mem::forget(st);
    }
}}

// 5. one executor step that goes to sleep on Rust-only work: the answer is WAIT on the task's own set with exactly one
//    wakeup read pending and the state SLEEPING, so that a wake from another task writes the item (4) and the host then
//    reports the stream event.
itw_harness! { fn c23_idle_task_sleeps_with_a_pending_read() {
    #[cfg(kani)]
    {
        c22::reset([Step::PendingIdle; 3]);
        let mut st = TaskState::new(Box::pin(Body));
        let rc = st.callback(EVENT_NONE, 0, 0);
        vassert!(rc == CallbackCode::Wait(SET), "C23: a task pending only on Rust-originated events waits on its own set");
        vassert!(st.shared.sleep_state.load(Ordering::Relaxed) == SLEEP_STATE_SLEEPING);
        vassert!(h().unit_reads == 1 && h().unit_read_pending);
        inv(&st);
        no_host_trap();
        // the wake-up: one item
        st.shared.wake_by_ref();
        vassert!(h().unit_writes == 1);
        core::mem::forget(st);
    }
}}

// 6. the next callback after a sleep, from the state harness 5 ends in (stream exists, one read pending and joined,
//    SLEEPING): whether it is the wakeup event itself (read completed, 6a) or some other reason with the read still
//    pending (6b), no read is pending while the task polls, the task IS polled again, and the read is cancelled exactly
//    when it had not completed.
fn sleeping_task() -> TaskState<'static> {
    let mut st = TaskState::new(Box::pin(Body));
    st.read_inter_task_stream();
    st.shared.sleep_state.store(SLEEP_STATE_SLEEPING, Ordering::Relaxed);
    st
}
itw_harness! { fn c23_wakeup_event_polls_task_again_without_cancel() {
    #[cfg(kani)]
    {
        c22::reset([Step::Ready; 3]);
        let mut st = sleeping_task();
        inv(&st);
        st.shared.wake_by_ref();
        vassert!(h().unit_writes == 1);
        // the host completed the read and reports it (any count the ABI allows for a 1-item read)
        h().unit_read_pending = false;
        let rc2 = st.callback(EVENT_STREAM_READ, UNIT_R, 0x10);
        vassert!(sc().polls == 1, "C23: the woken task is polled again");
        vassert!(!sc_read_pending_during_poll(), "C23: no wakeup read is pending while the task polls");
        vassert!(h().unit_cancel_reads == 0, "C23: a completed read is not cancelled");
        vassert!(rc2 == CallbackCode::Exit);
        inv(&st);
        no_host_trap();
        core::mem::forget(st);
    }
}}
itw_harness! { fn c23_other_event_cancels_pending_read_before_polling() {
    #[cfg(kani)]
    {
        c22::reset([Step::Ready; 3]);
        let mut st = sleeping_task();
        // the callback may arrive while the task is still SLEEPING, or after another task already woke it (WOKEN, the item is
        // written and the read's completion is queued at the host) but BEFORE the host reports the stream's own event:
        // in both cases the runtime still believes a read is outstanding and must settle it before polling.
        let woken_first: bool = kani::any();
        if woken_first {
            st.shared.wake_by_ref();
            vassert!(h().unit_writes == 1 && st.shared.sleep_state.load(Ordering::Relaxed) == SLEEP_STATE_WOKEN);
        }
        let rc2 = st.callback(EVENT_NONE, 0, 0);
        vassert!(sc().polls == 1);
        vassert!(!sc_read_pending_during_poll(), "C23: the pending wakeup read is cancelled before the task polls again");
        vassert!(h().unit_cancel_reads == 1, "C23: a pending read is cancelled exactly once");
        vassert!(rc2 == CallbackCode::Exit);
        inv(&st);
        no_host_trap();
        core::mem::forget(st);
        kani::cover!(woken_first);
        kani::cover!(!woken_first);
    }
}}

// 7. a callback that answers YIELD (woken during polling) does not leave the task marked SLEEPING: it will be resumed by the
//    host without any wakeup item, so a wake arriving before that must be a no-op (coalesced), not a stream write.
itw_harness! { fn c23_yield_leaves_task_woken_not_sleeping() {
    #[cfg(kani)]
    {
        c22::reset([Step::PendingWake, Step::Ready, Step::Ready]);
        let mut st = TaskState::new(Box::pin(Body));
        let had_slept_before: bool = kani::any();
        if had_slept_before {
            // the wakeup stream already exists from an earlier sleep (no read pending now)
            st.read_inter_task_stream();
            st.cancel_inter_task_stream_read();
        }
        let writes_before = h().unit_writes;
        let rc = st.callback(EVENT_NONE, 0, 0);
        vassert!(rc == CallbackCode::Yield);
        inv(&st);
        vassert!(st.shared.sleep_state.load(Ordering::Relaxed) != SLEEP_STATE_SLEEPING, "C23: a yielding task is not sleeping");
        // another task wakes it before the host resumes it: coalesced, nothing is written
        st.shared.wake_by_ref();
        vassert!(h().unit_writes == writes_before, "C23: a wake while the task is only yielding writes no wakeup item");
        no_host_trap();
        core::mem::forget(st);
        kani::cover!(had_slept_before);
    }
}}

fn sc_read_pending_during_poll() -> bool {
    sc().unit_read_pending_during_poll
}
