//! C24 — scratch allocations (`Cleanup`): null exactly when the size is zero, freed exactly once with the
//! layout they were allocated with.  The allocator is replaced by recording stubs.
use crate::rt::Cleanup;
use core::alloc::Layout;

pub static mut ALLOCS: u32 = 0;
pub static mut DEALLOCS: u32 = 0;
pub static mut A_LAYOUT: (usize, usize) = (0, 0);
pub static mut A_PTR: *mut u8 = core::ptr::null_mut();
pub static mut D_LAYOUT: (usize, usize) = (0, 0);
pub static mut D_PTR: *mut u8 = core::ptr::null_mut();

pub unsafe fn alloc_rec(layout: Layout) -> *mut u8 {
    unsafe {
        ALLOCS += 1;
        A_LAYOUT = (layout.size(), layout.align());
        // a different entry point of the same allocator, so the stub does not call itself
        let p = alloc::alloc::alloc_zeroed(layout);
        A_PTR = p;
        p
    }
}
pub unsafe fn dealloc_rec(ptr: *mut u8, layout: Layout) {
    unsafe {
        DEALLOCS += 1;
        D_LAYOUT = (layout.size(), layout.align());
        D_PTR = ptr;
    }
}
#[cfg(kani)]
fn any_layout() -> Layout {
    let size: usize = kani::any();
    kani::assume(size <= 6);
    let sh: u8 = kani::any();
    kani::assume(sh < 4);
    Layout::from_size_align(size, 1usize << sh).unwrap()
}
fn reset() {
    unsafe {
        ALLOCS = 0;
        DEALLOCS = 0;
        A_LAYOUT = (0, 0);
        D_LAYOUT = (0, 0);
        A_PTR = core::ptr::null_mut();
        D_PTR = core::ptr::null_mut();
    }
}

#[cfg_attr(kani, kani::proof)]
#[cfg_attr(kani, kani::unwind(8))]
#[cfg_attr(kani, kani::stub(alloc::alloc::alloc, crate::rt::async_support::verif::c24::alloc_rec))]
#[cfg_attr(kani, kani::stub(alloc::alloc::dealloc, crate::rt::async_support::verif::c24::dealloc_rec))]
pub fn c24_cleanup_null_iff_zero_size() {
    #[cfg(kani)]
    {
        reset();
        let layout = any_layout();
        let (ptr, cleanup) = Cleanup::new(layout);
        vassert!(ptr.is_null() == (layout.size() == 0), "C24: scratch pointer is null exactly when the size is zero");
        vassert!(cleanup.is_some() == (layout.size() != 0), "C24: a cleanup handle exists exactly when something was allocated");
        unsafe {
            vassert!(ALLOCS == (layout.size() != 0) as u32, "C24: allocates once, and not at all for size zero");
            if layout.size() != 0 {
                vassert!(A_LAYOUT == (layout.size(), layout.align()) && ptr == A_PTR, "C24: allocated with the requested layout");
                vassert!(ptr as usize % layout.align() == 0);
            }
            vassert!(DEALLOCS == 0, "C24: not freed while the handle is alive");
        }
        drop(cleanup);
        unsafe {
            vassert!(DEALLOCS == (layout.size() != 0) as u32, "C24: freed exactly once");
            if layout.size() != 0 {
                vassert!(D_PTR == ptr && D_LAYOUT == (layout.size(), layout.align()), "C24: freed with the size and alignment it was allocated with");
            }
        }
        kani::cover!(layout.size() == 0);
        kani::cover!(layout.size() == 6 && layout.align() == 8);
    }
}

#[cfg_attr(kani, kani::proof)]
#[cfg_attr(kani, kani::unwind(8))]
#[cfg_attr(kani, kani::stub(alloc::alloc::alloc, crate::rt::async_support::verif::c24::alloc_rec))]
#[cfg_attr(kani, kani::stub(alloc::alloc::dealloc, crate::rt::async_support::verif::c24::dealloc_rec))]
pub fn c24_cleanup_forget_does_not_free() {
    #[cfg(kani)]
    {
        reset();
        let layout = any_layout();
        kani::assume(layout.size() != 0);
        let (ptr, cleanup) = Cleanup::new(layout);
        cleanup.unwrap().forget();
        unsafe {
            vassert!(DEALLOCS == 0, "C24: a forgotten scratch allocation is handed over, not freed");
            // the block is still live and writable
            *ptr = 1;
        }
    }
}

// ---- allocation failure: a non-zero-sized scratch allocation that the allocator cannot satisfy must abort, never come
// back as a null pointer (the bindings write through it unconditionally)
pub static mut ABORTS: u32 = 0;
pub unsafe fn alloc_fails(layout: Layout) -> *mut u8 {
    unsafe {
        ALLOCS += 1;
    }
    core::ptr::null_mut()
}
pub fn abort_rec(_layout: Layout) -> ! {
    unsafe { ABORTS += 1 };
    // the process is gone: nothing after this point runs
    #[cfg(kani)]
    kani::assume(false);
    loop {}
}
#[cfg_attr(kani, kani::proof)]
#[cfg_attr(kani, kani::unwind(8))]
#[cfg_attr(kani, kani::stub(alloc::alloc::alloc, crate::rt::async_support::verif::c24::alloc_fails))]
#[cfg_attr(kani, kani::stub(alloc::alloc::dealloc, crate::rt::async_support::verif::c24::dealloc_rec))]
#[cfg_attr(kani, kani::stub(alloc::alloc::handle_alloc_error, crate::rt::async_support::verif::c24::abort_rec))]
pub fn c24_cleanup_failed_allocation_never_returns_null() {
    #[cfg(kani)]
    {
        reset();
        unsafe { ABORTS = 0 };
        let layout = any_layout();
        kani::assume(layout.size() != 0);
        kani::cover!(layout.size() == 6, "the failing allocation is attempted");
        let (ptr, cleanup) = Cleanup::new(layout);
        // reaching this point means Cleanup::new RETURNED although the allocator gave it nothing
        vassert!(false, "C24: a failed scratch allocation of non-zero size must abort, not return (null exactly when the size is zero)");
        core::mem::forget(cleanup);
    }
}
