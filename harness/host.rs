//! Mock component-model host + mock exported task ("wasip3_task").
//!
//! The same functions serve two builds:
//!  * under Kani they replace the foreign declarations produced by the `extern_wasm!` hook
//!    through `#[kani::stub(..)]`;
//!  * natively (concrete playback of a Kani counterexample) they are linked as the C symbols
//!    named by the wasm import name, `#[unsafe(export_name = "[waitable-join]")]` etc.
//!
//! The mock is an ASSUMPTION about what the canonical ABI permits; it is listed in every
//! evidence file.  It records what the guest did (a ledger) and answers with values chosen by
//! the harness (symbolic under Kani).
use super::super::cabi;
use core::ffi::c_void;
use core::ptr;

pub const NTASK: usize = 2;
pub const NENT: usize = 2;
pub const NJOIN: usize = 2;

#[derive(Copy, Clone)]
pub struct Entry {
    pub waitable: u32, // 0 = free slot
    pub callback: Option<unsafe extern "C" fn(*mut c_void, u32)>,
    pub ptr: *mut c_void,
}
pub const NOENT: Entry = Entry { waitable: 0, callback: None, ptr: ptr::null_mut() };

#[derive(Copy, Clone)]
pub struct MockTask {
    pub entries: [Entry; NENT],
    pub clones: u32,
    pub drops: u32,
    pub registers: u32,
    pub unregisters: u32,
}
pub const NOTASK: MockTask = MockTask { entries: [NOENT; NENT], clones: 0, drops: 0, registers: 0, unregisters: 0 };

pub struct Host {
    // ---- mock exported tasks (C ABI side), identified by ptr = index + 1
    pub tasks: [MockTask; NTASK],
    pub cur_task: *mut cabi::wasip3_task,
    pub task_set_calls: u32,
    // ---- waitable sets
    pub sets_new: u32,
    pub sets_dropped: u32,
    pub next_set: u32,
    pub joins: [(u32, u32); NJOIN], // (waitable, set) currently joined; waitable 0 = free
    pub join_calls: u32,
    pub join_log: [(u32, u32); 8], // every [waitable-join] call in order
    pub poll_answer: (u32, u32, u32),
    pub wait_answer: (u32, u32, u32),
    pub poll_calls: u32,
    pub wait_calls: u32,
    // ---- context slot
    pub ctx: *mut u8,
    pub ctx_sets: u32,
    // ---- subtasks
    pub subtask_cancels: u32,
    pub subtask_cancel_answer: u32,
    pub subtask_cancel_while_joined: bool,
    pub subtask_drops: u32,
    pub subtask_dropped_handle: u32,
    pub subtask_cancel_after_drop: bool,
    pub subtask_cancelled_handle: u32,
    // ---- unit stream (inter-task wakeup)
    pub unit_new: u32,
    pub unit_reads: u32,
    pub unit_read_answer: u32,
    pub unit_writes: u32,
    pub unit_write_answer: u32,
    pub unit_cancel_reads: u32,
    pub unit_cancel_read_while_joined: bool,
    pub unit_cancel_read_without_read: bool,
    pub unit_read_pending: bool,
    pub unit_double_read: bool,
    pub unit_cancel_writes: u32,
    pub unit_drop_readable: u32,
    pub unit_drop_writable: u32,
    pub unit_drop_readable_while_reading: bool,
    // ---- misc
    pub task_cancels: u32,
    pub event_seq: u32, // global sequence counter for ordering checks
}

/// waitable set of mock task `t` is MOCK_SET_BASE + t
pub const MOCK_SET_BASE: u32 = 100;
pub const UNIT_W: u32 = 71;
pub const UNIT_R: u32 = 70;

pub static mut H: Host = Host::new();

impl Host {
    pub const fn new() -> Host {
        Host {
            tasks: [NOTASK; NTASK],
            cur_task: ptr::null_mut(),
            task_set_calls: 0,
            sets_new: 0,
            sets_dropped: 0,
            next_set: 41,
            joins: [(0, 0); NJOIN],
            join_calls: 0,
            join_log: [(0, 0); 8],
            poll_answer: (0, 0, 0),
            wait_answer: (0, 0, 0),
            poll_calls: 0,
            wait_calls: 0,
            ctx: ptr::null_mut(),
            ctx_sets: 0,
            subtask_cancels: 0,
            subtask_cancel_answer: 0,
            subtask_cancel_while_joined: false,
            subtask_drops: 0,
            subtask_dropped_handle: 0,
            subtask_cancel_after_drop: false,
            subtask_cancelled_handle: 0,
            unit_new: 0,
            unit_reads: 0,
            unit_read_answer: 0xffff_ffff,
            unit_writes: 0,
            unit_write_answer: 0x10,
            unit_cancel_reads: 0,
            unit_cancel_read_while_joined: false,
            unit_cancel_read_without_read: false,
            unit_read_pending: false,
            unit_double_read: false,
            unit_cancel_writes: 0,
            unit_drop_readable: 0,
            unit_drop_writable: 0,
            unit_drop_readable_while_reading: false,
            task_cancels: 0,
            event_seq: 0,
        }
    }
}

pub fn h() -> &'static mut Host {
    unsafe { &mut *ptr::addr_of_mut!(H) }
}
pub fn reset() {
    unsafe { *ptr::addr_of_mut!(H) = Host::new() }
}

// ------------------------------------------------------------------ ledger queries
/// number of registrations of `waitable` over all mock tasks
pub fn registrations(waitable: u32) -> u32 {
    let mut n = 0;
    let mut t = 0;
    while t < NTASK {
        let mut i = 0;
        while i < NENT {
            if h().tasks[t].entries[i].waitable == waitable {
                n += 1;
            }
            i += 1;
        }
        t += 1;
    }
    n
}
pub fn total_registrations() -> u32 {
    let mut n = 0;
    let mut t = 0;
    while t < NTASK {
        let mut i = 0;
        while i < NENT {
            if h().tasks[t].entries[i].waitable != 0 {
                n += 1;
            }
            i += 1;
        }
        t += 1;
    }
    n
}
pub fn entry_of(task: usize, waitable: u32) -> Option<Entry> {
    let mut i = 0;
    while i < NENT {
        let e = h().tasks[task].entries[i];
        if e.waitable == waitable {
            return Some(e);
        }
        i += 1;
    }
    None
}
/// what an exported task does when the host reports an event for `waitable`: remove the entry,
/// then invoke its callback with the code (cf. TaskState::deliver_waitable_event)
pub unsafe fn deliver(task: usize, waitable: u32, code: u32) -> bool {
    let mut i = 0;
    while i < NENT {
        let e = h().tasks[task].entries[i];
        if e.waitable == waitable {
            h().tasks[task].entries[i] = NOENT;
            // the waitable leaves every set before its callback runs (WaitableSet::remove_waitable_from_all_sets)
            unsafe { waitable_join(waitable, 0) };
            unsafe { (e.callback.unwrap())(e.ptr, code) };
            return true;
        }
        i += 1;
    }
    false
}
pub fn joined_set_of(waitable: u32) -> u32 {
    let mut i = 0;
    while i < NJOIN {
        if h().joins[i].0 == waitable {
            return h().joins[i].1;
        }
        i += 1;
    }
    0
}

// ------------------------------------------------------------------ mock wasip3 task (C ABI)
fn task_index(ptr: *mut c_void) -> usize {
    let i = ptr as usize;
    assert!(i >= 1 && i <= NTASK, "task callback invoked with a pointer that is not a task's `ptr`");
    i - 1
}
pub unsafe extern "C" fn mt_register(
    ptr: *mut c_void,
    waitable: u32,
    callback: unsafe extern "C" fn(*mut c_void, u32),
    callback_ptr: *mut c_void,
) -> *mut c_void {
    let t = task_index(ptr);
    assert!(waitable != 0);
    h().tasks[t].registers += 1;
    // a real task joins the waitable to its own waitable set when it registers it (SharedTaskState::add_waitable)
    unsafe { waitable_join(waitable, MOCK_SET_BASE + t as u32) };
    let mut i = 0;
    while i < NENT {
        if h().tasks[t].entries[i].waitable == waitable {
            let prev = h().tasks[t].entries[i].ptr;
            h().tasks[t].entries[i] = Entry { waitable, callback: Some(callback), ptr: callback_ptr };
            return prev;
        }
        i += 1;
    }
    i = 0;
    while i < NENT {
        if h().tasks[t].entries[i].waitable == 0 {
            h().tasks[t].entries[i] = Entry { waitable, callback: Some(callback), ptr: callback_ptr };
            return ptr::null_mut();
        }
        i += 1;
    }
    panic!("mock task ledger full");
}
pub unsafe extern "C" fn mt_unregister(ptr: *mut c_void, waitable: u32) -> *mut c_void {
    let t = task_index(ptr);
    h().tasks[t].unregisters += 1;
    // ... and removes it from EVERY set when it unregisters it (WaitableSet::remove_waitable_from_all_sets): `join(w, 0)`
    unsafe { waitable_join(waitable, 0) };
    let mut i = 0;
    while i < NENT {
        if h().tasks[t].entries[i].waitable == waitable {
            let prev = h().tasks[t].entries[i].ptr;
            h().tasks[t].entries[i] = NOENT;
            return prev;
        }
        i += 1;
    }
    ptr::null_mut()
}
pub unsafe extern "C" fn mt_clone(ptr: *mut c_void) -> *mut c_void {
    let t = task_index(ptr);
    h().tasks[t].clones += 1;
    ptr
}
pub unsafe extern "C" fn mt_drop(ptr: *mut c_void) {
    let t = task_index(ptr);
    h().tasks[t].drops += 1;
    assert!(h().tasks[t].drops <= h().tasks[t].clones, "task reference dropped more often than cloned");
}
pub static MT_VTABLE: cabi::wasip3_task_vtable = cabi::wasip3_task_vtable {
    waitable_register: mt_register,
    waitable_unregister: mt_unregister,
    clone: mt_clone,
    drop: mt_drop,
};
/// A task structure as an executor would put it on its stack.  `v2 == false` gives a
/// version-1 structure (the vtable field must then never be read; it still has to be a valid
/// reference for Rust's sake).
pub fn mock_task(idx: usize, v2: bool) -> cabi::wasip3_task_v2 {
    cabi::wasip3_task_v2 {
        v1: cabi::wasip3_task {
            version: if v2 { cabi::WASIP3_TASK_V2 } else { cabi::WASIP3_TASK_V1 },
            ptr: (idx + 1) as *mut c_void,
            waitable_register: mt_register,
            waitable_unregister: mt_unregister,
        },
        vtable: &MT_VTABLE,
    }
}
pub fn enter_task(t: &mut cabi::wasip3_task_v2) {
    h().cur_task = (t as *mut cabi::wasip3_task_v2).cast();
}
pub fn leave_task() {
    h().cur_task = ptr::null_mut();
}

// ------------------------------------------------------------------ intrinsics
#[cfg_attr(bytecodealliance_wit_bindgen_verif_native, unsafe(export_name = "wasip3_task_set"))]
pub unsafe extern "C" fn wasip3_task_set(p: *mut cabi::wasip3_task) -> *mut cabi::wasip3_task {
    h().task_set_calls += 1;
    let prev = h().cur_task;
    h().cur_task = p;
    prev
}
#[cfg_attr(bytecodealliance_wit_bindgen_verif_native, unsafe(export_name = "[waitable-set-new]"))]
pub unsafe extern "C" fn waitable_set_new() -> u32 {
    h().sets_new += 1;
    let s = h().next_set;
    h().next_set += 1;
    s
}
#[cfg_attr(bytecodealliance_wit_bindgen_verif_native, unsafe(export_name = "[waitable-set-drop]"))]
pub unsafe extern "C" fn waitable_set_drop(set: u32) {
    // the canonical ABI traps when a set that still has members is dropped
    let mut i = 0;
    while i < NJOIN {
        assert!(!(h().joins[i].0 != 0 && h().joins[i].1 == set), "waitable-set.drop of a set that still has members");
        i += 1;
    }
    h().sets_dropped += 1;
}
#[cfg_attr(bytecodealliance_wit_bindgen_verif_native, unsafe(export_name = "[waitable-join]"))]
pub unsafe extern "C" fn waitable_join(waitable: u32, set: u32) {
    if (h().join_calls as usize) < 8 {
        h().join_log[h().join_calls as usize] = (waitable, set);
    }
    h().join_calls += 1;
    let mut i = 0;
    while i < NJOIN {
        if h().joins[i].0 == waitable {
            h().joins[i] = (0, 0);
        }
        i += 1;
    }
    if set != 0 {
        i = 0;
        while i < NJOIN {
            if h().joins[i].0 == 0 {
                h().joins[i] = (waitable, set);
                return;
            }
            i += 1;
        }
        panic!("mock join table full");
    }
}
#[cfg_attr(bytecodealliance_wit_bindgen_verif_native, unsafe(export_name = "[waitable-set-wait]"))]
pub unsafe extern "C" fn waitable_set_wait(_set: u32, payload: *mut [u32; 2]) -> u32 {
    h().wait_calls += 1;
    unsafe { *payload = [h().wait_answer.1, h().wait_answer.2] };
    h().wait_answer.0
}
#[cfg_attr(bytecodealliance_wit_bindgen_verif_native, unsafe(export_name = "[waitable-set-poll]"))]
pub unsafe extern "C" fn waitable_set_poll(_set: u32, payload: *mut [u32; 2]) -> u32 {
    h().poll_calls += 1;
    unsafe { *payload = [h().poll_answer.1, h().poll_answer.2] };
    let r = h().poll_answer.0;
    // an event is reported once
    h().poll_answer = (0, 0, 0);
    r
}
#[cfg_attr(bytecodealliance_wit_bindgen_verif_native, unsafe(export_name = "[context-get-0]"))]
pub unsafe extern "C" fn context_get() -> *mut u8 {
    h().ctx
}
#[cfg_attr(bytecodealliance_wit_bindgen_verif_native, unsafe(export_name = "[context-set-0]"))]
pub unsafe extern "C" fn context_set(v: *mut u8) {
    h().ctx_sets += 1;
    h().ctx = v;
}
#[cfg_attr(bytecodealliance_wit_bindgen_verif_native, unsafe(export_name = "[subtask-cancel]"))]
pub unsafe extern "C" fn subtask_cancel(handle: u32) -> u32 {
    h().subtask_cancels += 1;
    h().subtask_cancelled_handle = handle;
    if h().subtask_drops > 0 {
        h().subtask_cancel_after_drop = true; // the handle is no longer in the subtask table: the host traps
    }
    if joined_set_of(handle) != 0 || registrations(handle) != 0 {
        h().subtask_cancel_while_joined = true;
    }
    h().subtask_cancel_answer
}
#[cfg_attr(bytecodealliance_wit_bindgen_verif_native, unsafe(export_name = "[subtask-drop]"))]
pub unsafe extern "C" fn subtask_drop(handle: u32) {
    h().subtask_drops += 1;
    h().subtask_dropped_handle = handle;
}
#[cfg_attr(bytecodealliance_wit_bindgen_verif_native, unsafe(export_name = "[task-cancel]"))]
pub unsafe extern "C" fn task_cancel() {
    h().task_cancels += 1;
}
#[cfg_attr(bytecodealliance_wit_bindgen_verif_native, unsafe(export_name = "[thread-yield]"))]
pub unsafe extern "C" fn thread_yield() -> bool {
    false
}
#[cfg_attr(bytecodealliance_wit_bindgen_verif_native, unsafe(export_name = "[backpressure-inc]"))]
pub unsafe extern "C" fn backpressure_inc() {}
#[cfg_attr(bytecodealliance_wit_bindgen_verif_native, unsafe(export_name = "[backpressure-dec]"))]
pub unsafe extern "C" fn backpressure_dec() {}

// ---- unit stream intrinsics (feature inter-task-wakeup)
#[cfg_attr(bytecodealliance_wit_bindgen_verif_native, unsafe(export_name = "[stream-new-unit]"))]
pub unsafe extern "C" fn unit_new() -> u64 {
    h().unit_new += 1;
    ((UNIT_W as u64) << 32) | UNIT_R as u64
}
#[cfg_attr(bytecodealliance_wit_bindgen_verif_native, unsafe(export_name = "[async-lower][stream-write-unit]"))]
pub unsafe extern "C" fn unit_write(stream: u32, _val: *const u8, amt: usize) -> u32 {
    assert!(stream == UNIT_W && amt == 1);
    h().unit_writes += 1;
    // a write rendezvous with the pending read completes it
    h().unit_write_answer
}
#[cfg_attr(bytecodealliance_wit_bindgen_verif_native, unsafe(export_name = "[async-lower][stream-read-unit]"))]
pub unsafe extern "C" fn unit_read(stream: u32, _val: *mut u8, amt: usize) -> u32 {
    assert!(stream == UNIT_R && amt == 1);
    h().unit_reads += 1;
    if h().unit_read_pending {
        h().unit_double_read = true; // the canonical ABI traps on a second concurrent read
    }
    if h().unit_read_answer == 0xffff_ffff {
        h().unit_read_pending = true;
    }
    h().unit_read_answer
}
#[cfg_attr(bytecodealliance_wit_bindgen_verif_native, unsafe(export_name = "[stream-cancel-read-unit]"))]
pub unsafe extern "C" fn unit_cancel_read(stream: u32) -> u32 {
    assert!(stream == UNIT_R);
    h().unit_cancel_reads += 1;
    if joined_set_of(stream) != 0 {
        h().unit_cancel_read_while_joined = true; // traps in the canonical ABI
    }
    if !h().unit_read_pending {
        h().unit_cancel_read_without_read = true; // traps in the canonical ABI
    }
    h().unit_read_pending = false;
    0x2 // CANCELLED(0)
}
#[cfg_attr(bytecodealliance_wit_bindgen_verif_native, unsafe(export_name = "[stream-cancel-write-unit]"))]
pub unsafe extern "C" fn unit_cancel_write(_stream: u32) -> u32 {
    h().unit_cancel_writes += 1;
    0x2
}
#[cfg_attr(bytecodealliance_wit_bindgen_verif_native, unsafe(export_name = "[stream-drop-readable-unit]"))]
pub unsafe extern "C" fn unit_drop_readable(_stream: u32) {
    if h().unit_read_pending {
        h().unit_drop_readable_while_reading = true; // traps in the canonical ABI
    }
    h().unit_drop_readable += 1;
}
#[cfg_attr(bytecodealliance_wit_bindgen_verif_native, unsafe(export_name = "[stream-drop-writable-unit]"))]
pub unsafe extern "C" fn unit_drop_writable(_stream: u32) {
    h().unit_drop_writable += 1;
}

// ------------------------------------------------------------------ counting waker
pub static mut WAKES: u32 = 0;
pub static mut WAKER_CLONES: u32 = 0;
pub static mut WAKER_DROPS: u32 = 0;
use core::task::{RawWaker, RawWakerVTable, Waker};
unsafe fn cw_clone(p: *const ()) -> RawWaker {
    unsafe { WAKER_CLONES += 1 };
    RawWaker::new(p, &CW_VTABLE)
}
unsafe fn cw_wake(_p: *const ()) {
    unsafe {
        WAKES += 1;
        WAKER_DROPS += 1;
    }
}
unsafe fn cw_wake_by_ref(_p: *const ()) {
    unsafe { WAKES += 1 };
}
unsafe fn cw_drop(_p: *const ()) {
    unsafe { WAKER_DROPS += 1 };
}
static CW_VTABLE: RawWakerVTable = RawWakerVTable::new(cw_clone, cw_wake, cw_wake_by_ref, cw_drop);
pub fn counting_waker() -> Waker {
    unsafe {
        WAKES = 0;
        WAKER_CLONES = 1;
        WAKER_DROPS = 0;
        Waker::from_raw(RawWaker::new(ptr::null(), &CW_VTABLE))
    }
}
pub fn wakes() -> u32 {
    unsafe { WAKES }
}

/// Declares the stub list shared by all runtime harnesses.
#[macro_export]
macro_rules! verif_host_stubs {
    ($(#[$m:meta])* fn $name:ident() $body:block) => {
        #[cfg_attr(kani, kani::proof)]
        #[cfg_attr(kani, kani::stub(crate::rt::async_support::cabi::wasip3_task_set, crate::rt::async_support::verif::host::wasip3_task_set))]
        #[cfg_attr(kani, kani::stub(crate::rt::async_support::waitable_set::new, crate::rt::async_support::verif::host::waitable_set_new))]
        #[cfg_attr(kani, kani::stub(crate::rt::async_support::waitable_set::drop, crate::rt::async_support::verif::host::waitable_set_drop))]
        #[cfg_attr(kani, kani::stub(crate::rt::async_support::waitable_set::join, crate::rt::async_support::verif::host::waitable_join))]
        #[cfg_attr(kani, kani::stub(crate::rt::async_support::waitable_set::wait, crate::rt::async_support::verif::host::waitable_set_wait))]
        #[cfg_attr(kani, kani::stub(crate::rt::async_support::waitable_set::poll, crate::rt::async_support::verif::host::waitable_set_poll))]
        #[cfg_attr(kani, kani::stub(crate::rt::async_support::subtask::cancel, crate::rt::async_support::verif::host::subtask_cancel))]
        #[cfg_attr(kani, kani::stub(crate::rt::async_support::subtask::drop, crate::rt::async_support::verif::host::subtask_drop))]
        $(#[$m])*
        pub fn $name() $body
    };
}
