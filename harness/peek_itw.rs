// Mounted as `crate::rt::async_support::inter_task_wakeup::verif_peek` under --cfg bytecodealliance_wit_bindgen_verif.
// Read-only observers of private state, for representation invariants stated by the harnesses.  No logic.
use super::State;
pub(crate) fn stream_reading(s: &State) -> bool {
    s.stream_reading
}
pub(crate) fn has_stream(s: &State) -> bool {
    s.stream.is_some()
}
