// Mounted as `crate::rt::async_support::waitable::verif_peek` under --cfg bytecodealliance_wit_bindgen_verif.
// Read-only observers of private state, for representation invariants stated by the harnesses.  No logic.
use super::{WaitableOp, WaitableOperation};
/// (has a cloned task handle?, the handle's `ptr`, what it believes is registered there)
pub(crate) fn task_view<S: WaitableOp>(op: &WaitableOperation<S>) -> (bool, usize, Option<u32>) {
    match &op.task {
        Some(t) => (true, t.ptr as usize, t.registered),
        None => (false, 0, None),
    }
}
/// address of the completion slot whose pointer is handed to tasks
pub(crate) fn completion_slot<S: WaitableOp>(op: &WaitableOperation<S>) -> usize {
    &op.completion_status as *const _ as usize
}
/// has a completion code been delivered and not yet consumed?
pub(crate) fn code_pending<S: WaitableOp>(op: &WaitableOperation<S>) -> bool {
    op.completion_status.code.is_some()
}
