//! C04, unit A: the shared bitcast table `wit_bindgen_core::abi::cast` (the real function, called through
//! the crate's public API) against the Canonical ABI's slot-joining rules.
//!
//! Spec side (written from the Component Model's CanonicalABI.md `join`, `lower_flat_variant` and
//! `lift_flat_variant`/`CoerceValueIter`, widened with wit-parser's provenance-carrying `Pointer`,
//! `Length` and `PointerOrI64` which the spec sees as i32 (i64 on a 64-bit memory) and i64):
//!   * a core value of type T is a bit-vector of width w(T);
//!   * lowering a payload of slot type t into the joined slot type j keeps the value: reinterpret for
//!     float<->int of the same width, ZERO-extension when j is wider (the spec's i32 values are unsigned);
//!   * lifting takes the low w(t) bits of the joined slot (wrap) and reinterprets.
//! Values are carried in a u64, zero-extended.
#![allow(unused, static_mut_refs)]
use wit_bindgen_core::abi::{cast, Bitcast, WasmType};
use WasmType::*;

pub fn ty(i: u8) -> WasmType {
    match i {
        0 => I32,
        1 => I64,
        2 => F32,
        3 => F64,
        4 => Pointer,
        5 => PointerOrI64,
        _ => Length,
    }
}
pub fn idx(t: WasmType) -> u8 {
    match t {
        I32 => 0,
        I64 => 1,
        F32 => 2,
        F64 => 3,
        Pointer => 4,
        PointerOrI64 => 5,
        Length => 6,
    }
}
fn same(a: WasmType, b: WasmType) -> bool {
    idx(a) == idx(b)
}

/// the Canonical ABI `join`, widened as wit-parser documents it (TRUSTED spec table):
/// equal types join to themselves; i32/f32 join to i32; a length is an i32-or-i64 integer without
/// provenance; a pointer has provenance and address width; anything needing both 64 bits and provenance is
/// PointerOrI64; everything else joins to i64.
pub fn spec_join(a: WasmType, b: WasmType) -> WasmType {
    if same(a, b) {
        return a;
    }
    let is32 = |t: WasmType| matches!(t, I32 | F32);
    let is64 = |t: WasmType| matches!(t, I64 | F64);
    if matches!(a, PointerOrI64) || matches!(b, PointerOrI64) {
        return PointerOrI64;
    }
    if matches!(a, Pointer) || matches!(b, Pointer) {
        let o = if matches!(a, Pointer) { b } else { a };
        return if is64(o) { PointerOrI64 } else { Pointer };
    }
    if matches!(a, Length) || matches!(b, Length) {
        let o = if matches!(a, Length) { b } else { a };
        return if is64(o) { I64 } else { Length };
    }
    if is32(a) && is32(b) {
        return I32;
    }
    I64
}

/// width in bits of a core value of this type
pub fn width(t: WasmType, p64: bool) -> u32 {
    match t {
        I32 | F32 => 32,
        I64 | F64 | PointerOrI64 => 64,
        Pointer | Length => {
            if p64 {
                64
            } else {
                32
            }
        }
    }
}
pub fn mask(w: u32) -> u64 {
    if w >= 64 { u64::MAX } else { (1u64 << w) - 1 }
}

/// (from, to) of every named conversion, read off its name; `None` is handled by the caller.
fn sig0(b: &Bitcast) -> Option<(WasmType, WasmType)> {
    Some(match b {
        Bitcast::F32ToI32 => (F32, I32),
        Bitcast::F64ToI64 => (F64, I64),
        Bitcast::I32ToI64 => (I32, I64),
        Bitcast::F32ToI64 => (F32, I64),
        Bitcast::I32ToF32 => (I32, F32),
        Bitcast::I64ToF64 => (I64, F64),
        Bitcast::I64ToI32 => (I64, I32),
        Bitcast::I64ToF32 => (I64, F32),
        Bitcast::P64ToI64 => (PointerOrI64, I64),
        Bitcast::I64ToP64 => (I64, PointerOrI64),
        Bitcast::P64ToP => (PointerOrI64, Pointer),
        Bitcast::PToP64 => (Pointer, PointerOrI64),
        Bitcast::I32ToP => (I32, Pointer),
        Bitcast::PToI32 => (Pointer, I32),
        Bitcast::PToL => (Pointer, Length),
        Bitcast::LToP => (Length, Pointer),
        Bitcast::I32ToL => (I32, Length),
        Bitcast::LToI32 => (Length, I32),
        Bitcast::I64ToL => (I64, Length),
        Bitcast::LToI64 => (Length, I64),
        Bitcast::None | Bitcast::Sequence(_) => return Option::None,
    })
}

/// The meaning of a conversion from a `from`-typed value to a `to`-typed value (the Canonical ABI has only
/// one): keep the low min(w(from), w(to)) bits, zero-fill above.  Every named Bitcast IS this function for its
/// own (from, to); a Sequence is the composition of its two steps.  `chk` becomes false when a step's source type
/// is not the type of the value it receives (an ill-typed table entry).
fn conv(from: WasmType, to: WasmType, x: u64, p64: bool) -> u64 {
    x & mask(width(from, p64)) & mask(width(to, p64))
}

pub struct Out {
    pub val: u64,
    pub ty: WasmType,
    pub well_typed: bool,
    pub too_deep: bool,
}

fn step(b: &Bitcast, cur: Out, p64: bool, depth: u32) -> Out {
    match b {
        Bitcast::None => cur,
        Bitcast::Sequence(s) => {
            if depth == 0 {
                return Out { too_deep: true, ..cur };
            }
            let [a, c] = &**s;
            let mid = step(a, cur, p64, depth - 1);
            step(c, mid, p64, depth - 1)
        }
        named => {
            let (f, t) = sig0(named).unwrap();
            Out {
                val: conv(f, t, cur.val, p64),
                ty: t,
                well_typed: cur.well_typed && same(f, cur.ty),
                too_deep: cur.too_deep,
            }
        }
    }
}

/// run the conversion `b` on a value `x` of type `from`
pub fn sem(b: &Bitcast, from: WasmType, x: u64, p64: bool) -> Out {
    step(b, Out { val: x, ty: from, well_typed: true, too_deep: false }, p64, 2)
}

#[cfg(kani)]
mod proofs {
    use super::*;

    fn any_ty() -> WasmType {
        let i: u8 = kani::any();
        kani::assume(i < 7);
        ty(i)
    }

    /// vacuity canary: must FAIL
    #[kani::proof]
    pub fn verif_canary_must_fail() {
        let x: u8 = kani::any();
        assert!(x != 7);
    }

    /// (a) t <= t; (b) t <= j ==> t <= join(j, x): so the slot type of a variant (the fold of `join` over the
    /// flat types of all cases at that position) is, by induction over the number of cases, above the type t of
    /// each case's own value.  `t <= j` is `join(t, j) == j`.
    #[kani::proof]
    pub fn c04_join_closure() {
        let (t, j, x) = (any_ty(), any_ty(), any_ty());
        assert!(same(spec_join(t, t), t));
        assert!(same(spec_join(t, j), spec_join(j, t)));
        if same(spec_join(t, j), j) {
            let j2 = spec_join(j, x);
            assert!(same(spec_join(t, j2), j2));
            assert!(width(t, false) <= width(j, false) && width(t, true) <= width(j, true));
        }
    }

    /// every (payload slot type t, joined slot type j) pair a valid variant can produce is converted in both
    /// directions without panicking, by a conversion whose steps are well typed and end in the requested type
    #[kani::proof]
    #[kani::unwind(6)]
    pub fn c04_cast_total_and_well_typed() {
        let (t, j) = (any_ty(), any_ty());
        kani::assume(same(spec_join(t, j), j));
        let p64: bool = kani::any();
        let up = cast(t, j);
        let down = cast(j, t);
        let x: u64 = kani::any();
        let u = sem(&up, t, x, p64);
        let d = sem(&down, j, x, p64);
        kani::assert(!u.too_deep && !d.too_deep, "HARNESS-LIMIT: Sequence nested deeper than 2");
        kani::assert(u.well_typed, "lowering conversion: a step's source type is not the type it is applied to");
        kani::assert(same(u.ty, j), "lowering conversion does not end in the joined slot type");
        kani::assert(d.well_typed, "lifting conversion: a step's source type is not the type it is applied to");
        kani::assert(same(d.ty, t), "lifting conversion does not end in the payload's type");
        if same(t, j) {
            kani::assert(matches!(up, Bitcast::None) && matches!(down, Bitcast::None), "equal types need no conversion");
        }
        kani::cover!(matches!(up, Bitcast::Sequence(_)));
        kani::cover!(matches!(down, Bitcast::Sequence(_)));
        core::mem::forget(up);
        core::mem::forget(down);
    }

    /// lowering side == spec: the joined slot holds the payload's bits, zero-extended; lifting side == spec: the
    /// payload is the low w(t) bits of the slot; hence the round trip is the identity on every bit pattern of t.
    #[kani::proof]
    #[kani::unwind(6)]
    pub fn c04_cast_semantics() {
        let (t, j) = (any_ty(), any_ty());
        kani::assume(same(spec_join(t, j), j));
        let p64: bool = kani::any();
        let up = cast(t, j);
        let down = cast(j, t);
        let x: u64 = kani::any();
        kani::assume(x <= mask(width(t, p64)));
        let u = sem(&up, t, x, p64);
        kani::assert(u.val == x, "lower side: joined slot value is not the zero-extended / reinterpreted payload");
        let y: u64 = kani::any();
        kani::assume(y <= mask(width(j, p64)));
        let d = sem(&down, j, y, p64);
        kani::assert(d.val == y & mask(width(t, p64)), "lift side: payload is not the low bits of the joined slot");
        let r = sem(&down, j, u.val, p64);
        kani::assert(r.val == x, "round trip through the joined slot changes the value");
        kani::cover!(!same(t, j) && width(t, p64) < width(j, p64));
        core::mem::forget(up);
        core::mem::forget(down);
    }
}
