/* C11 (resources and free helpers; partial, bounded): `resprobe.c` / `resprobe.h` next to this file are the output of the REAL C
 * generator for kani/cgen_res/probe.wit, generated once with the default options and once with `--autodrop-borrows yes`
 * (then compiled with -DAUTODROP), included unedited.  CBMC verifies this file in the wasm32 data model (--32).
 *
 * The harness is the host: it defines the `__wasm_import_*` symbols the bindings call (resource.drop / resource.new /
 * resource.rep of every resource of the probe) and records every call, and it defines the user's export functions, which
 * record what they were given.  Every scenario states which handles the bindings own and asserts that exactly those are
 * released.
 *
 * Documented C ownership rules (crates/c/README.md): an `own` argument belongs to the callee (the user's function); a
 * `borrow` of an imported resource passed to an export must be dropped before the export returns - by the user (`*_drop_borrow`)
 * by default, by the bindings with --autodrop-borrows yes; a borrow of an exported resource is the raw representation pointer
 * and is never dropped; the destructor of an exported resource is the export `<interface>#[dtor]<resource>`, which calls the
 * user's `*_destructor`. */
#include "resprobe.c"

unsigned int nondet_uint(void);
unsigned char nondet_uchar(void);
_Bool nondet_bool(void);
#define ASSERT(c, m) __CPROVER_assert((c), m)
#define P 4

/* ------------------------------------------------------------------ the host: canonical built-ins, every call recorded */
static unsigned store_drops; static int32_t store_dropped;
void __wasm_import_verif_res_store_blob_store_drop(int32_t h) { store_drops++; store_dropped = h; }
static unsigned thing_drops, thing_news, thing_reps; static int32_t thing_dropped, thing_new_rep, thing_new_handle, thing_rep_handle, thing_rep_result;
void __wasm_import_exports_verif_res_things_my_thing_drop(int32_t h) { thing_drops++; thing_dropped = h; }
int32_t __wasm_import_exports_verif_res_things_my_thing_new(int32_t rep) { thing_news++; thing_new_rep = rep; return thing_new_handle; }
int32_t __wasm_import_exports_verif_res_things_my_thing_rep(int32_t h) { thing_reps++; thing_rep_handle = h; return thing_rep_result; }
static unsigned box_drops, box_news, box_reps; static int32_t box_dropped;
void __wasm_import_exports_verif_res_things_box_drop(int32_t h) { box_drops++; box_dropped = h; }
int32_t __wasm_import_exports_verif_res_things_box_new(int32_t rep) { box_news++; return 77; }
int32_t __wasm_import_exports_verif_res_things_box_rep(int32_t h) { box_reps++; return 0; }
int32_t __wasm_import_verif_res_store_constructor_blob_store(void) { return 5; }
int32_t __wasm_import_verif_res_store_method_blob_store_size(int32_t h) { return h; }
void __wasm_import_verif_res_shared_swap(uint8_t *a, size_t b, int32_t c, int32_t d, uint8_t *e, size_t f, uint8_t *g) { }
static unsigned host_calls(void) { return store_drops + thing_drops + thing_news + thing_reps + box_drops + box_news + box_reps; }

/* ------------------------------------------------------------------ the user's export functions */
static unsigned calls; static int32_t seen_handle; static _Bool seen_some; static uint8_t seen_tag; static uint32_t seen_index;
static void *seen_rep; static uint32_t user_ret; static int32_t user_ret_handle;
static unsigned thing_dtors, box_dtors; static void *dtor_rep;
void exports_verif_res_things_my_thing_destructor(exports_verif_res_things_my_thing_t *rep) { thing_dtors++; dtor_rep = rep; }
void exports_verif_res_things_box_destructor(exports_verif_res_things_box_t *rep) { box_dtors++; dtor_rep = rep; }
exports_verif_res_things_own_my_thing_t exports_verif_res_things_constructor_my_thing(uint32_t v) { calls++; return (exports_verif_res_things_own_my_thing_t) { user_ret_handle }; }
uint32_t exports_verif_res_things_method_my_thing_get(exports_verif_res_things_borrow_my_thing_t self) { calls++; seen_rep = self; return user_ret; }
exports_verif_res_things_own_box_t exports_verif_res_things_constructor_box(void) { calls++; return (exports_verif_res_things_own_box_t) { user_ret_handle }; }
/* the user functions below deliberately release NOTHING themselves: whatever is dropped was dropped by the bindings */
uint32_t exports_verif_res_things_plain(exports_verif_res_things_borrow_blob_store_t b) { calls++; seen_handle = b.__handle; return user_ret; }
uint32_t exports_verif_res_things_maybe(exports_verif_res_things_borrow_blob_store_t *maybe_b) {
  calls++; seen_some = maybe_b != NULL; if (maybe_b) seen_handle = maybe_b->__handle; return user_ret;
}
uint32_t exports_verif_res_things_lookup(exports_verif_res_things_key_t *k) {
  calls++; seen_tag = k->tag; if (k->tag == 0) seen_handle = k->val.by_handle.__handle; else seen_index = k->val.by_index; return user_ret;
}
exports_verif_res_things_own_my_thing_t exports_verif_res_things_make(uint32_t v) { calls++; seen_index = v; return (exports_verif_res_things_own_my_thing_t) { user_ret_handle }; }
uint32_t exports_verif_res_things_consume(exports_verif_res_things_own_my_thing_t t) { calls++; seen_handle = t.__handle; return user_ret; }
uint32_t exports_verif_res_things_peek(exports_verif_res_things_borrow_my_thing_t t) { calls++; seen_rep = t; return user_ret; }
uint32_t exports_verif_res_things_take_store(exports_verif_res_things_own_blob_store_t s) { calls++; seen_handle = s.__handle; return user_ret; }
void exports_verif_res_shared_swap(exports_verif_res_shared_names_t *x, exports_verif_res_shared_pick_t *y, exports_verif_res_shared_names_t *ret) { }

static int32_t any_handle(void) { int32_t h = nondet_uint(); __CPROVER_assume(h != 0); return h; }   /* 0 is never a valid handle index */

/* ================================================================== borrows of an imported resource passed to an export */
#ifdef AUTODROP
#define OWNED_BY_BINDINGS 1   /* --autodrop-borrows yes: the bindings drop each borrow they were lent, exactly once, on return */
#else
#define OWNED_BY_BINDINGS 0   /* default: the user drops it; the bindings must release nothing */
#endif
void c11r_borrow_plain(void) {
  int32_t h = any_handle(); user_ret = nondet_uint();
  int32_t r = __wasm_export_exports_verif_res_things_plain(h);
  ASSERT(calls == 1 && seen_handle == h && (uint32_t) r == user_ret, "C11: the user function sees the borrow it was lent");
  ASSERT(store_drops == OWNED_BY_BINDINGS && (!OWNED_BY_BINDINGS || store_dropped == h), "C11: the lent borrow is released by the bindings exactly once (autodrop) / not at all (default)");
  ASSERT(host_calls() == store_drops, "C11: no other handle is touched");
}
void c11r_borrow_in_option(void) {
  _Bool some = nondet_bool(); int32_t h = any_handle();
  int32_t r = __wasm_export_exports_verif_res_things_maybe(some ? 1 : 0, some ? h : 0);   /* the unused payload of `none` is zero */
  ASSERT(calls == 1 && seen_some == some && (!some || seen_handle == h), "C11: the user function sees the option it was lent");
  ASSERT(store_drops == (some ? OWNED_BY_BINDINGS : 0) && (store_drops == 0 || store_dropped == h), "C11: a borrow is released exactly when one was lent");
  ASSERT(host_calls() == store_drops, "C11: no other handle is touched");
}
void c11r_borrow_in_variant(void) {
  uint8_t tag = nondet_uchar(); __CPROVER_assume(tag < 2);
  int32_t payload = nondet_uint(); if (tag == 0) __CPROVER_assume(payload != 0);   /* by-index(u32) shares the flat slot with the handle */
  int32_t r = __wasm_export_exports_verif_res_things_lookup(tag, payload);
  ASSERT(calls == 1 && seen_tag == tag && (tag == 0 ? seen_handle == payload : seen_index == (uint32_t) payload), "C11: the user function sees the variant it was sent");
  ASSERT(store_drops == (tag == 0 ? OWNED_BY_BINDINGS : 0), "C11: resource.drop is called exactly when the borrow arm was sent (an integer payload is not a handle)");
  ASSERT(store_drops == 0 || store_dropped == payload, "C11: the handle dropped is the one lent");
  ASSERT(host_calls() == store_drops, "C11: no other handle is touched");
}
/* own handles and borrows of exported resources: the bindings own nothing */
void c11r_own_and_exported_borrow(void) {
  int32_t h = any_handle(); user_ret_handle = any_handle(); user_ret = nondet_uint();
  ASSERT(__wasm_export_exports_verif_res_things_consume(h) == (int32_t) user_ret && seen_handle == h, "C11: an own argument reaches the user, who now owns it");
  ASSERT(__wasm_export_exports_verif_res_things_take_store(h) == (int32_t) user_ret && seen_handle == h, "C11: an own of an imported resource reaches the user");
  uint8_t rep_storage; uint8_t *rep = &rep_storage;
  ASSERT(__wasm_export_exports_verif_res_things_peek(rep) == (int32_t) user_ret && seen_rep == rep, "C11: a borrow of an exported resource is its representation pointer");
  ASSERT(__wasm_export_exports_verif_res_things_method_my_thing_get(rep) == (int32_t) user_ret && seen_rep == rep, "C11: `self` of a method is the representation pointer");
  ASSERT(__wasm_export_exports_verif_res_things_make(nondet_uint()) == user_ret_handle, "C11: a returned own handle is passed to the host unchanged");
  ASSERT(__wasm_export_exports_verif_res_things_constructor_my_thing(1) == user_ret_handle, "C11: the constructor's handle is passed to the host unchanged");
  ASSERT(calls == 6 && host_calls() == 0 && thing_dtors == 0 && box_dtors == 0, "C11: the bindings drop, create and destroy nothing on these paths");
}
/* ================================================================== destructor of an exported resource */
void c11r_destructor_runs_once(void) {
  uint8_t a, b;
  __wasm_export_exports_verif_res_things_my_thing_dtor((exports_verif_res_things_my_thing_t *) &a);
  ASSERT(thing_dtors == 1 && box_dtors == 0 && dtor_rep == (void *) &a, "C11: the my-thing destructor export runs the user's my-thing destructor exactly once, on the representation the host passed");
  __wasm_export_exports_verif_res_things_box_dtor((exports_verif_res_things_box_t *) &b);
  ASSERT(thing_dtors == 1 && box_dtors == 1 && dtor_rep == (void *) &b, "C11: the box destructor export runs the user's box destructor exactly once");
  ASSERT(host_calls() == 0, "C11: a destructor touches no handle");
}
/* ================================================================== handle helpers */
void c11r_handle_helpers(void) {
  int32_t h = any_handle();
  exports_verif_res_things_my_thing_drop_own((exports_verif_res_things_own_my_thing_t) { h });
  ASSERT(thing_drops == 1 && thing_dropped == h && host_calls() == 1, "C11: drop_own of an exported resource is exactly one resource.drop of that handle");
  verif_res_store_blob_store_drop_own((verif_res_store_own_blob_store_t) { h });
  ASSERT(store_drops == 1 && store_dropped == h && host_calls() == 2, "C11: drop_own of an imported resource is exactly one resource.drop of that handle");
#ifndef AUTODROP
  verif_res_store_blob_store_drop_borrow((verif_res_store_borrow_blob_store_t) { h });
  ASSERT(store_drops == 2 && store_dropped == h && host_calls() == 3, "C11: drop_borrow is exactly one resource.drop of that handle");
#endif
  unsigned before = host_calls();
  uint8_t rep_storage; thing_new_handle = any_handle();
  exports_verif_res_things_own_my_thing_t o = exports_verif_res_things_my_thing_new((exports_verif_res_things_my_thing_t *) &rep_storage);
  ASSERT(thing_news == 1 && thing_new_rep == (int32_t) &rep_storage && o.__handle == thing_new_handle && host_calls() == before + 1, "C11: new is exactly one resource.new of the representation and returns the host's handle");
  thing_rep_result = (int32_t) &rep_storage;
  ASSERT(exports_verif_res_things_my_thing_rep(o) == (exports_verif_res_things_my_thing_t *) &rep_storage && thing_reps == 1 && thing_rep_handle == o.__handle, "C11: rep asks the host for that handle's representation");
  ASSERT(verif_res_store_borrow_blob_store((verif_res_store_own_blob_store_t) { h }).__handle == h && host_calls() == before + 2, "C11: borrowing an own handle is the same index and releases nothing");
}
/* ================================================================== generated free helpers: exactly the owned memory (CBMC leak / double-free checks) */
static void make_list(resprobe_list_string_t *l, size_t n, size_t inner) {
  l->len = n; l->ptr = n ? (resprobe_string_t *) malloc(2 * P * n) : (resprobe_string_t *) 4;
  if (n) { __CPROVER_assume(l->ptr != NULL);
    for (size_t i = 0; i < n; i++) { l->ptr[i].len = inner; l->ptr[i].ptr = inner ? (uint8_t *) malloc(inner) : (uint8_t *) 1; if (inner) __CPROVER_assume(l->ptr[i].ptr != NULL); } }
}
static void any_list(resprobe_list_string_t *l) {
  size_t n = nondet_uint(), inner = nondet_uint(); __CPROVER_assume(n <= 2 && inner <= 1); make_list(l, n, inner);
}
void c11r_free_helpers_import_side(void) {
  verif_res_shared_names_t r; any_list(&r.all); r.id = 1; verif_res_shared_names_free(&r);
  verif_res_shared_pick_t v; v.tag = nondet_uchar(); __CPROVER_assume(v.tag < 3);
  if (v.tag == 1) any_list(&v.val.some_names); else v.val.n = 3;
  verif_res_shared_pick_free(&v);
}
#ifdef HAVE_EXPORT_SIDE_FREE
void c11r_free_helpers_export_side(void) {
  exports_verif_res_shared_names_t r; any_list(&r.all); r.id = 1; exports_verif_res_shared_names_free(&r);
  exports_verif_res_shared_pick_t v; v.tag = nondet_uchar(); __CPROVER_assume(v.tag < 3);
  if (v.tag == 1) any_list(&v.val.some_names); else v.val.n = 3;
  exports_verif_res_shared_pick_free(&v);
}
#endif
/* the variant helper alone (it is generated even where the record's is not) */
void c11r_free_helper_export_side_variant(void) {
  exports_verif_res_shared_pick_t v; v.tag = nondet_uchar(); __CPROVER_assume(v.tag < 3);
  if (v.tag == 1) any_list(&v.val.some_names); else v.val.n = 3;
  exports_verif_res_shared_pick_free(&v);
}
/* vacuity canary: must FAIL */
void canary_must_fail(void) { uint8_t x = nondet_uchar(); ASSERT(x != 7, "canary"); }
