/* C10 / C11 (partial, bounded): `valprobe.c` / `valprobe.h` next to this file are the output of the REAL C generator
 * (`wit-bindgen c kani/cgen_val/probe.wit`, built from /repo on every run), included unedited.  CBMC verifies this file in
 * the wasm32 data model (--32, minimal hand-written libc headers in inc32/).  The harness is the host at the core-ABI
 * boundary: it passes flat parameters / buffers it allocated the way a host does through cabi_realloc, the user's export
 * functions below record what they received and return values chosen by the harness, and the return area is read back by
 * hand at the canonical offsets (CanonicalABI.md; pointer size 4).  Memory: CBMC's own allocator model with
 * --pointer-check --bounds-check --memory-leak-check (double free, use after free, out of bounds, leaks).
 *
 * Documented C ownership rules (crates/c/README.md): an export's arguments are owned by the callee (the user function frees
 * them with the generated *_free helpers); an export's result is owned by the bindings and released by the generated
 * post-return; import arguments are borrowed and left untouched. */
#include "valprobe.c"

unsigned int nondet_uint(void);
unsigned long long nondet_ulonglong(void);
unsigned char nondet_uchar(void);
_Bool nondet_bool(void);
#define ASSERT(c, m) __CPROVER_assert((c), m)
#define P 4 /* pointer size of the target */

/* ------------------------------------------------------------------ the user's export functions */
static unsigned calls;
static valprobe_pt_t seen_pt, ret_pt;
static valprobe_tuple2_u8_u64_t seen_tuple, ret_tuple;
static _Bool seen_opt_some, ret_opt_some; static uint32_t seen_opt, ret_opt;
static valprobe_result_u32_u8_t seen_res, ret_res;
static uint8_t seen_perms, ret_perms, seen_color, ret_color;
static uint8_t seen_shape_tag, ret_shape_tag; static uint64_t seen_shape_num, ret_shape_num;
static size_t seen_len, ret_len; static uint8_t seen_b[2], ret_b[2];
/* string code units: bytes for utf8, 16-bit units with --string-encoding utf16 (lengths count code units, buffers are CUSZ * length bytes aligned to CUSZ) */
#ifdef UTF16
typedef uint16_t cu_t;
#define CUSZ 2
unsigned short nondet_ushort(void);
#define nondet_cu() nondet_ushort()
#else
typedef uint8_t cu_t;
#define CUSZ 1
#define nondet_cu() nondet_uchar()
#endif
static cu_t seen_u[2], ret_u[2];
static uint32_t seen_w[2], ret_w[2];
static valprobe_tuple3_u8_u32_u8_t seen_t[2], ret_t[2];
static size_t seen_inner_len, ret_inner_len;

void exports_valprobe_echo_pt(valprobe_pt_t *a, valprobe_pt_t *ret) { calls++; seen_pt = *a; *ret = ret_pt; }
void exports_valprobe_echo_tuple(valprobe_tuple2_u8_u64_t *a, valprobe_tuple2_u8_u64_t *ret) { calls++; seen_tuple = *a; *ret = ret_tuple; }
/* --no-sig-flattening (-DNOFLAT): options and results are passed and returned as their C structs instead of a nullable pointer / a bool plus out-pointers */
#ifdef NOFLAT
void exports_valprobe_echo_opt(valprobe_option_u32_t *a, valprobe_option_u32_t *ret) {
  calls++; seen_opt_some = a->is_some; if (a->is_some) seen_opt = a->val;
  ret->is_some = ret_opt_some; if (ret_opt_some) ret->val = ret_opt;
}
void exports_valprobe_echo_res(valprobe_result_u32_u8_t *a, valprobe_result_u32_u8_t *ret) { calls++; seen_res = *a; *ret = ret_res; }
#else
bool exports_valprobe_echo_opt(uint32_t *maybe_a, uint32_t *ret) {
  calls++; seen_opt_some = maybe_a != NULL; if (maybe_a) seen_opt = *maybe_a;
  if (ret_opt_some) *ret = ret_opt;
  return ret_opt_some;
}
bool exports_valprobe_echo_res(valprobe_result_u32_u8_t *a, uint32_t *ret, uint8_t *err) {
  calls++; seen_res = *a;
  if (ret_res.is_err) { *err = ret_res.val.err; return false; }
  *ret = ret_res.val.ok; return true;
}
#endif
valprobe_perms_t exports_valprobe_echo_perms(valprobe_perms_t a) { calls++; seen_perms = a; return ret_perms; }
valprobe_color_t exports_valprobe_echo_color(valprobe_color_t a) { calls++; seen_color = a; return ret_color; }

static void fill_bytes(uint8_t *p, size_t n, const uint8_t *src) { if (n >= 1) p[0] = src[0]; if (n >= 2) p[1] = src[1]; }
static void take_bytes(const uint8_t *p, size_t n) { seen_len = n; if (n >= 1) seen_b[0] = p[0]; if (n >= 2) seen_b[1] = p[1]; }
static void fill_units(cu_t *p, size_t n, const cu_t *src) { if (n >= 1) p[0] = src[0]; if (n >= 2) p[1] = src[1]; }
static void take_units(const cu_t *p, size_t n) { seen_len = n; if (n >= 1) seen_u[0] = p[0]; if (n >= 2) seen_u[1] = p[1]; }
static void give_string(valprobe_string_t *ret) {
  ret->len = ret_len;
  ret->ptr = ret_len ? (cu_t *) malloc(CUSZ * ret_len) : (cu_t *) CUSZ;
  if (ret_len) { __CPROVER_assume(ret->ptr != NULL); fill_units(ret->ptr, ret_len, ret_u); }
}
void exports_valprobe_echo_str(valprobe_string_t *a, valprobe_string_t *ret) {
  calls++; take_units(a->ptr, a->len);
  valprobe_string_free(a);            /* the callee owns its argument */
  give_string(ret);
}
void exports_valprobe_echo_bytes(valprobe_list_u8_t *a, valprobe_list_u8_t *ret) {
  calls++; take_bytes(a->ptr, a->len);
  valprobe_list_u8_free(a);
  ret->len = ret_len; ret->ptr = ret_len ? (uint8_t *) malloc(ret_len) : (uint8_t *) 1;
  if (ret_len) { __CPROVER_assume(ret->ptr != NULL); fill_bytes(ret->ptr, ret_len, ret_b); }
}
void exports_valprobe_echo_words(valprobe_list_u32_t *a, valprobe_list_u32_t *ret) {
  calls++; seen_len = a->len; if (a->len >= 1) seen_w[0] = a->ptr[0]; if (a->len >= 2) seen_w[1] = a->ptr[1];
  valprobe_list_u32_free(a);
  ret->len = ret_len; ret->ptr = ret_len ? (uint32_t *) malloc(4 * ret_len) : (uint32_t *) 4;
  if (ret_len) { __CPROVER_assume(ret->ptr != NULL); if (ret_len >= 1) ret->ptr[0] = ret_w[0]; if (ret_len >= 2) ret->ptr[1] = ret_w[1]; }
}
void exports_valprobe_echo_pairs(valprobe_list_tuple3_u8_u32_u8_t *a, valprobe_list_tuple3_u8_u32_u8_t *ret) {
  calls++; seen_len = a->len; if (a->len >= 1) seen_t[0] = a->ptr[0]; if (a->len >= 2) seen_t[1] = a->ptr[1];
  if (a->len > 0) free(a->ptr);
  ret->len = ret_len; ret->ptr = ret_len ? (valprobe_tuple3_u8_u32_u8_t *) malloc(12 * ret_len) : (valprobe_tuple3_u8_u32_u8_t *) 4;
  if (ret_len) { __CPROVER_assume(ret->ptr != NULL); if (ret_len >= 1) ret->ptr[0] = ret_t[0]; if (ret_len >= 2) ret->ptr[1] = ret_t[1]; }
}
void exports_valprobe_echo_shape(valprobe_shape_t *a, valprobe_shape_t *ret) {
  calls++; seen_shape_tag = a->tag;
  if (a->tag == 1) seen_shape_num = a->val.circle;
  if (a->tag == 2) seen_shape_num = a->val.wide;
  if (a->tag == 3) { take_units(a->val.label.ptr, a->val.label.len); }
  valprobe_shape_free(a);
  ret->tag = ret_shape_tag;
  if (ret_shape_tag == 1) ret->val.circle = (uint32_t) ret_shape_num;
  if (ret_shape_tag == 2) ret->val.wide = ret_shape_num;
  if (ret_shape_tag == 3) give_string(&ret->val.label);
}
void exports_valprobe_echo_strs(valprobe_list_string_t *a, valprobe_list_string_t *ret) {
  calls++; seen_len = a->len;
  if (a->len >= 1) { seen_inner_len = a->ptr[0].len; if (seen_inner_len >= 1) seen_u[0] = a->ptr[0].ptr[0]; }
  valprobe_list_string_free(a);
  ret->len = ret_len;
  ret->ptr = ret_len ? (valprobe_string_t *) malloc(2 * P * ret_len) : (valprobe_string_t *) 4;
  if (ret_len) {
    __CPROVER_assume(ret->ptr != NULL);
    ret->ptr[0].len = ret_inner_len;
    ret->ptr[0].ptr = ret_inner_len ? (cu_t *) malloc(CUSZ * ret_inner_len) : (cu_t *) CUSZ;
    if (ret_inner_len) { __CPROVER_assume(ret->ptr[0].ptr != NULL); ret->ptr[0].ptr[0] = ret_u[0]; }
  }
}

static valprobe_person_t seen_person, ret_person; static uint8_t seen_tags[2], ret_tags[2]; static size_t ret_tags_len;
void exports_valprobe_echo_person(valprobe_person_t *a, valprobe_person_t *ret) {
  calls++; seen_person = *a; take_units(a->name.ptr, a->name.len);
  if (a->tags.len >= 1) seen_tags[0] = a->tags.ptr[0]; if (a->tags.len >= 2) seen_tags[1] = a->tags.ptr[1];
  valprobe_person_free(a);            /* the callee owns its argument: the generated helper frees both buffers */
  ret->id = ret_person.id; ret->age = ret_person.age;
  give_string(&ret->name);
  ret->tags.len = ret_tags_len; ret->tags.ptr = ret_tags_len ? (uint8_t *) malloc(ret_tags_len) : (uint8_t *) 1;
  if (ret_tags_len) { __CPROVER_assume(ret->tags.ptr != NULL); fill_bytes(ret->tags.ptr, ret_tags_len, ret_tags); }
}
static _Bool seen_rstr_err, ret_rstr_err; static uint32_t seen_rstr_code, ret_rstr_code;
/* scalars of every width in one record, flags using all 32 bits, nested options */
static valprobe_scal_t seen_scal, ret_scal; static valprobe_big_t seen_big, ret_big;
static _Bool seen_oo_outer, seen_oo_inner, ret_oo_outer, ret_oo_inner; static uint8_t seen_oo, ret_oo;
void exports_valprobe_echo_scal(valprobe_scal_t *a, valprobe_scal_t *ret) { calls++; seen_scal = *a; *ret = ret_scal; }
valprobe_big_t exports_valprobe_echo_big(valprobe_big_t a) { calls++; seen_big = a; return ret_big; }
#ifdef NOFLAT
void exports_valprobe_echo_oo(valprobe_option_option_u8_t *a, valprobe_option_option_u8_t *ret) {
  calls++; seen_oo_outer = a->is_some; if (a->is_some) { seen_oo_inner = a->val.is_some; if (a->val.is_some) seen_oo = a->val.val; }
  ret->is_some = ret_oo_outer; if (ret_oo_outer) { ret->val.is_some = ret_oo_inner; if (ret_oo_inner) ret->val.val = ret_oo; }
}
#else
bool exports_valprobe_echo_oo(valprobe_option_u8_t *maybe_a, valprobe_option_u8_t *ret) {
  calls++; seen_oo_outer = maybe_a != NULL; if (maybe_a) { seen_oo_inner = maybe_a->is_some; if (maybe_a->is_some) seen_oo = maybe_a->val; }
  if (ret_oo_outer) { ret->is_some = ret_oo_inner; if (ret_oo_inner) ret->val = ret_oo; }
  return ret_oo_outer;
}
#endif
/* results with only one payload: result<u32> and result<_, u8> */
static _Bool seen_r1_err, ret_r1_err; static uint32_t seen_r1, ret_r1;
#ifdef NOFLAT
void exports_valprobe_echo_rok(valprobe_result_u32_void_t *a, valprobe_result_u32_void_t *ret) {
  calls++; seen_r1_err = a->is_err; if (!a->is_err) seen_r1 = a->val.ok;
  ret->is_err = ret_r1_err; if (!ret_r1_err) ret->val.ok = ret_r1;
}
void exports_valprobe_echo_rerr(valprobe_result_void_u8_t *a, valprobe_result_void_u8_t *ret) {
  calls++; seen_r1_err = a->is_err; if (a->is_err) seen_r1 = a->val.err;
  ret->is_err = ret_r1_err; if (ret_r1_err) ret->val.err = (uint8_t) ret_r1;
}
#else
bool exports_valprobe_echo_rok(valprobe_result_u32_void_t *a, uint32_t *ret) {
  calls++; seen_r1_err = a->is_err; if (!a->is_err) seen_r1 = a->val.ok;
  if (ret_r1_err) return false;
  *ret = ret_r1; return true;
}
bool exports_valprobe_echo_rerr(valprobe_result_void_u8_t *a, uint8_t *err) {
  calls++; seen_r1_err = a->is_err; if (a->is_err) seen_r1 = a->val.err;
  if (ret_r1_err) { *err = (uint8_t) ret_r1; return false; }
  return true;
}
#endif
#ifdef NOFLAT
void exports_valprobe_echo_rstr(valprobe_result_string_u32_t *a, valprobe_result_string_u32_t *ret) {
  calls++; seen_rstr_err = a->is_err;
  if (a->is_err) seen_rstr_code = a->val.err; else take_units(a->val.ok.ptr, a->val.ok.len);
  valprobe_result_string_u32_free(a);
  ret->is_err = ret_rstr_err;
  if (ret_rstr_err) ret->val.err = ret_rstr_code; else give_string(&ret->val.ok);
}
#else
bool exports_valprobe_echo_rstr(valprobe_result_string_u32_t *a, valprobe_string_t *ret, uint32_t *err) {
  calls++; seen_rstr_err = a->is_err;
  if (a->is_err) seen_rstr_code = a->val.err; else take_units(a->val.ok.ptr, a->val.ok.len);
  valprobe_result_string_u32_free(a);
  if (ret_rstr_err) { *err = ret_rstr_code; return false; }
  give_string(ret); return true;
}
#endif

static valprobe_fvar_t seen_fvar, ret_fvar;
void exports_valprobe_echo_fvar(valprobe_fvar_t *a, valprobe_fvar_t *ret) { calls++; seen_fvar = *a; *ret = ret_fvar; }

/* ------------------------------------------------------------------ mock host for the import */
static unsigned sink_calls; static int32_t sink_disc; static size_t sink_len; static uint8_t *sink_elem_ptr; static size_t sink_elem_len;
int32_t __wasm_import_verif_val_sinks_nested_list(int32_t disc, uint8_t *records, size_t len) {
  sink_calls++; sink_disc = disc; sink_len = len;
  if (disc == 1 && len >= 1) { sink_elem_ptr = *((uint8_t **) (records + 0)); sink_elem_len = *((size_t *) (records + P)); }
  return disc;
}

/* the host side of send-fvar: lifts the flat (case, joined i64 slot) the way CanonicalABI.md's lift_flat_variant does (an f32 in an i64 slot is
 * wrap-to-i32 then reinterpret; the bits above 32 are ignored), and stores its own result at the canonical offsets (case @0, payload @8) */
union f32bits { float f; uint32_t u; }; union f64bits { double d; uint64_t u; };
static unsigned fvar_calls; static int32_t host_fvar_case; static uint64_t host_fvar_bits; static uint8_t host_ret_case; static uint64_t host_ret_bits;
void __wasm_import_verif_val_sinks_send_fvar(int32_t c, int64_t slot, uint8_t *ret) {
  fvar_calls++; host_fvar_case = c; host_fvar_bits = c == 0 ? (uint64_t) (uint32_t) slot : (uint64_t) slot;
  *((uint8_t *) (ret + 0)) = host_ret_case;
  if (host_ret_case == 0) *((uint32_t *) (ret + 8)) = (uint32_t) host_ret_bits; else *((uint64_t *) (ret + 8)) = host_ret_bits;
}
static uint64_t fvar_bits(const verif_val_t_fvar_t *v) {
  if (v->tag == 0) { union f32bits b; b.f = v->val.f; return b.u; }
  if (v->tag == 1) return v->val.w;
  union f64bits b; b.d = v->val.d; return b.u;
}
static void fvar_set(verif_val_t_fvar_t *v, uint8_t tag, uint64_t bits) {
  v->tag = tag;
  if (tag == 0) { union f32bits b; b.u = (uint32_t) bits; v->val.f = b.f; }
  else if (tag == 1) v->val.w = bits;
  else { union f64bits b; b.u = bits; v->val.d = b.d; }
}

/* the host side of fetch-names(n) -> list<string>: the host allocates the list and every string in the guest through cabi_realloc and
 * stores (pointer, length) in the return area; afterwards all of it belongs to the caller */
static unsigned fetch_calls; static uint32_t fetch_arg; static size_t fetch_len, fetch_inner; static cu_t fetch_unit;
void __wasm_import_verif_val_sinks_fetch_names(int32_t n, uint8_t *ret) {
  fetch_calls++; fetch_arg = (uint32_t) n;
  uint8_t *list = (uint8_t *) cabi_realloc(NULL, 0, P, 2 * P * fetch_len);
  for (size_t i = 0; i < fetch_len; i++) {
    uint8_t *e = (uint8_t *) cabi_realloc(NULL, 0, CUSZ, CUSZ * fetch_inner);
    if (fetch_inner) ((cu_t *) e)[0] = fetch_unit;
    *((uint8_t **) (list + 2 * P * i)) = e; *((size_t *) (list + 2 * P * i + P)) = fetch_inner;
  }
  *((uint8_t **) (ret + 0)) = list; *((size_t *) (ret + P)) = fetch_len;
}

/* the host side of take-str(string, list<u32>): flat (pointer, length, pointer, length) */
static unsigned take_calls; static uint8_t *take_sp, *take_lp; static size_t take_sl, take_ll;
int32_t __wasm_import_verif_val_sinks_take_str(uint8_t *sp, size_t sl, uint8_t *lp, size_t ll) { take_calls++; take_sp = sp; take_sl = sl; take_lp = lp; take_ll = ll; return 7; }

/* a buffer as the host obtains it from cabi_realloc */
static uint8_t *host_alloc(size_t size, size_t align) {
  uint8_t *p = (uint8_t *) cabi_realloc(NULL, 0, align, size);
  return p;
}
#define RD(T, p, off) (*((T *) ((p) + (off))))
/* the return area is reused from call to call: start every scenario with arbitrary stale contents, so that a wrapper that
 * writes a field only partially (or not at all) is seen */
static void stale_ret_area(void) { __CPROVER_havoc_object(RET_AREA); }

/* ================================================================== C10: values, full scalar domains */
void c10_record(void) {
  stale_ret_area();
  int32_t x = nondet_uint(), y = nondet_uint();
  ret_pt.x = nondet_uchar(); ret_pt.y = nondet_uint();
  uint8_t *ret = __wasm_export_exports_valprobe_echo_pt(x, y);
  ASSERT(calls == 1 && seen_pt.x == (uint8_t) x && seen_pt.y == (uint32_t) y, "C10: the record the host sent arrives unchanged (low bits of each flat value)");
  ASSERT(RD(uint8_t, ret, 0) == ret_pt.x && RD(uint32_t, ret, 4) == ret_pt.y, "C10: the returned record is stored at its canonical offsets");
}
void c10_tuple(void) {
  stale_ret_area();
  int32_t a = nondet_uint(); int64_t b = nondet_ulonglong();
  ret_tuple.f0 = nondet_uchar(); ret_tuple.f1 = nondet_ulonglong();
  uint8_t *ret = __wasm_export_exports_valprobe_echo_tuple(a, b);
  ASSERT(calls == 1 && seen_tuple.f0 == (uint8_t) a && seen_tuple.f1 == (uint64_t) b, "C10: the tuple the host sent arrives unchanged");
  ASSERT(RD(uint8_t, ret, 0) == ret_tuple.f0 && RD(uint64_t, ret, 8) == ret_tuple.f1, "C10: the returned tuple is stored at its canonical offsets (u8 @0, u64 @8)");
}
void c10_option(void) {
  stale_ret_area();
  _Bool some = nondet_bool(); uint32_t v = nondet_uint();
  ret_opt_some = nondet_bool(); ret_opt = nondet_uint();
  uint8_t *ret = __wasm_export_exports_valprobe_echo_opt(some ? 1 : 0, some ? (int32_t) v : 0);
  ASSERT(calls == 1 && seen_opt_some == some && (!some || seen_opt == v), "C10: the option the host sent arrives unchanged");
  ASSERT(RD(uint8_t, ret, 0) == (ret_opt_some ? 1 : 0) && (!ret_opt_some || RD(uint32_t, ret, 4) == ret_opt), "C10: the returned option is stored canonically (discriminant @0, payload @4)");
}
void c10_result(void) {
  stale_ret_area();
  _Bool err = nondet_bool(); uint32_t v = nondet_uint();
  ret_res.is_err = nondet_bool(); uint32_t rv = nondet_uint();
  if (ret_res.is_err) ret_res.val.err = (uint8_t) rv; else ret_res.val.ok = rv;
  uint8_t *ret = __wasm_export_exports_valprobe_echo_res(err ? 1 : 0, (int32_t) v);
  ASSERT(calls == 1 && seen_res.is_err == err && (err ? seen_res.val.err == (uint8_t) v : seen_res.val.ok == v), "C10: the result the host sent arrives unchanged");
  ASSERT(RD(uint8_t, ret, 0) == (ret_res.is_err ? 1 : 0), "C10: the returned discriminant");
  ASSERT(ret_res.is_err ? RD(uint8_t, ret, 4) == (uint8_t) rv : RD(uint32_t, ret, 4) == rv, "C10: the returned payload at offset 4");
}
union f32b { float f; uint32_t u; }; union f64b { double d; uint64_t u; };
void c10_scalar_record(void) {
  stale_ret_area();
  _Bool b = nondet_bool(), rb = nondet_bool(); uint32_t c = nondet_uint(), rc = nondet_uint();
  __CPROVER_assume((c < 0xD800 || (c > 0xDFFF && c <= 0x10FFFF)) && (rc < 0xD800 || (rc > 0xDFFF && rc <= 0x10FFFF)));   /* unicode scalar values */
  int8_t s8 = nondet_uchar(), rs8 = nondet_uchar(); int16_t s16 = nondet_uint(), rs16 = nondet_uint(); int64_t s64 = nondet_ulonglong(), rs64 = nondet_ulonglong();
  union f32b f, rf; f.u = nondet_uint(); rf.u = nondet_uint(); union f64b d, rd; d.u = nondet_ulonglong(); rd.u = nondet_ulonglong();
  ret_scal.b = rb; ret_scal.c = rc; ret_scal.s = rs8; ret_scal.h = rs16; ret_scal.l = rs64; ret_scal.f = rf.f; ret_scal.d = rd.d;
  /* the host sign-extends s8 / s16 into the i32 (CanonicalABI.md lower_flat) */
  uint8_t *ret = __wasm_export_exports_valprobe_echo_scal(b ? 1 : 0, (int32_t) c, (int32_t) s8, (int32_t) s16, s64, f.f, d.d);
  union f32b sf; sf.f = seen_scal.f; union f64b sd; sd.d = seen_scal.d;
  ASSERT(calls == 1 && seen_scal.b == b && seen_scal.c == c && seen_scal.s == s8 && seen_scal.h == s16 && seen_scal.l == s64 && sf.u == f.u && sd.u == d.u,
         "C10: bool, char, s8, s16, s64, f32 (bits), f64 (bits) arrive unchanged");
  ASSERT(RD(uint8_t, ret, 0) == (rb ? 1 : 0) && RD(uint32_t, ret, 4) == rc && RD(int8_t, ret, 8) == rs8 && RD(int16_t, ret, 10) == rs16 && RD(int64_t, ret, 16) == rs64
         && RD(uint32_t, ret, 24) == rf.u && RD(uint64_t, ret, 32) == rd.u, "C10: the returned record is stored at its canonical offsets (0, 4, 8, 10, 16, 24, 32)");
}
/* 32 flags: the widest flags type a component may contain (wasmparser rejects more than 32), so bit 31 - the sign bit of the core i32 - is a flag */
void c10_flags_32_members(void) {
  stale_ret_area();
  uint32_t v = nondet_uint(), rv = nondet_uint();
  ret_big = rv;
  int32_t r = __wasm_export_exports_valprobe_echo_big((int32_t) v);
  ASSERT(calls == 1 && seen_big == v, "C10: a flags value of 32 flags arrives as exactly that set (bit 31 included)");
  ASSERT((uint32_t) r == rv, "C10: the returned flags are the returned bit set");
}
void c10_nested_option(void) {
  stale_ret_area();
  _Bool o = nondet_bool(), i = nondet_bool(); uint8_t v = nondet_uchar(); ret_oo_outer = nondet_bool(); ret_oo_inner = nondet_bool(); ret_oo = nondet_uchar();
  uint8_t *ret = __wasm_export_exports_valprobe_echo_oo(o ? 1 : 0, o && i ? 1 : 0, o && i ? v : 0);
  ASSERT(calls == 1 && seen_oo_outer == o && (!o || (seen_oo_inner == i && (!i || seen_oo == v))), "C10: option<option<u8>> arrives unchanged (none, some(none), some(some(v)) are distinct)");
  ASSERT(RD(uint8_t, ret, 0) == (ret_oo_outer ? 1 : 0) && (!ret_oo_outer || (RD(uint8_t, ret, 1) == (ret_oo_inner ? 1 : 0) && (!ret_oo_inner || RD(uint8_t, ret, 2) == ret_oo))),
         "C10: the returned nested option is stored canonically (outer @0, inner @1, payload @2)");
}
void c10_result_one_payload(void) {
  stale_ret_area();
  _Bool err = nondet_bool(); uint32_t v = nondet_uint(); ret_r1_err = nondet_bool(); ret_r1 = nondet_uint();
  _Bool only_ok = nondet_bool();   /* result<u32> or result<_, u8> */
  uint8_t *ret = only_ok ? __wasm_export_exports_valprobe_echo_rok(err ? 1 : 0, err ? 0 : (int32_t) v)
                         : __wasm_export_exports_valprobe_echo_rerr(err ? 1 : 0, err ? (int32_t) (uint8_t) v : 0);
  ASSERT(calls == 1 && seen_r1_err == err, "C10: the result's case arrives unchanged");
  ASSERT(only_ok ? (err || seen_r1 == v) : (!err || seen_r1 == (uint8_t) v), "C10: the result's only payload arrives unchanged");
  ASSERT(RD(uint8_t, ret, 0) == (ret_r1_err ? 1 : 0), "C10: the returned case is the discriminant");
  if (only_ok) ASSERT(ret_r1_err || RD(uint32_t, ret, 4) == ret_r1, "C10: ok(u32) of a result without an error type is stored at the payload offset");
  else ASSERT(!ret_r1_err || RD(uint8_t, ret, 1) == (uint8_t) ret_r1, "C10: err(u8) of a result without an ok type is stored at the payload offset");
}
void c10_flags_enum(void) {
  stale_ret_area();
  uint8_t f = nondet_uchar(), rf = nondet_uchar(), c = nondet_uchar(), rc = nondet_uchar();
  __CPROVER_assume(f < 8 && rf < 8 && c < 3 && rc < 3);
  ret_perms = rf; ret_color = rc;
  int32_t r1 = __wasm_export_exports_valprobe_echo_perms(f);
  ASSERT(seen_perms == f && r1 == rf, "C10: flags travel as their bit set");
  int32_t r2 = __wasm_export_exports_valprobe_echo_color(c);
  ASSERT(seen_color == c && r2 == rc && calls == 2, "C10: an enum travels as its case index");
}
void c10_variant_numeric(void) {
  stale_ret_area();
  uint8_t tag = nondet_uchar(), rtag = nondet_uchar();
  __CPROVER_assume(tag < 3 && rtag < 3);
  uint64_t payload = nondet_ulonglong(); ret_shape_num = nondet_ulonglong(); ret_shape_tag = rtag;
  int64_t slot = tag == 0 ? 0 : tag == 1 ? (int64_t) (uint32_t) payload : (int64_t) payload; /* the spec zero-extends circle's u32 into the joined slot */
  uint8_t *ret = __wasm_export_exports_valprobe_echo_shape(tag, slot, 0);
  ASSERT(calls == 1 && seen_shape_tag == tag && (tag == 0 || seen_shape_num == (uint64_t) slot), "C10: the variant case and payload the host sent arrive unchanged");
  ASSERT(RD(uint8_t, ret, 0) == rtag, "C10: the returned case is the discriminant");
  ASSERT(rtag != 1 || RD(uint32_t, ret, 8) == (uint32_t) ret_shape_num, "C10: circle's payload at the payload offset");
  ASSERT(rtag != 2 || RD(uint64_t, ret, 8) == ret_shape_num, "C10: wide's payload at the payload offset");
  __wasm_export_exports_valprobe_echo_shape_post_return(ret);
}

/* an f32 whose payload slot another case widens to i64 (variant { f(f32), w(u64), d(f64) }): every bit pattern, NaNs included, both directions */
void c10_f32_in_wide_variant_import(void) {
  uint8_t tag = nondet_uchar(); __CPROVER_assume(tag < 3); uint64_t bits = nondet_ulonglong(); if (tag == 0) bits = (uint32_t) bits;
  host_ret_case = nondet_uchar(); __CPROVER_assume(host_ret_case < 3); host_ret_bits = nondet_ulonglong(); if (host_ret_case == 0) host_ret_bits = (uint32_t) host_ret_bits;
  verif_val_sinks_fvar_t v, r; fvar_set(&v, tag, bits);
  verif_val_sinks_send_fvar(&v, &r);
  ASSERT(fvar_calls == 1 && host_fvar_case == tag && host_fvar_bits == bits, "C10: the host lifts the case and exactly the payload bits the C code sent (f32 / u64 / f64 in the joined i64 slot)");
  ASSERT(r.tag == host_ret_case && fvar_bits(&r) == host_ret_bits, "C10: the C code receives the case and exactly the payload bits the host returned");
}
void c10_f32_in_wide_variant_export(void) {
  stale_ret_area();
  uint8_t tag = nondet_uchar(), rtag = nondet_uchar(); __CPROVER_assume(tag < 3 && rtag < 3);
  uint64_t bits = nondet_ulonglong(), rbits = nondet_ulonglong(); if (tag == 0) bits = (uint32_t) bits; if (rtag == 0) rbits = (uint32_t) rbits;
  fvar_set(&ret_fvar, rtag, rbits);
  uint8_t *ret = __wasm_export_exports_valprobe_echo_fvar(tag, (int64_t) bits);   /* the host zero-extends an f32's bits into the i64 slot */
  ASSERT(calls == 1 && seen_fvar.tag == tag && fvar_bits(&seen_fvar) == bits, "C10: the case and payload bits the host sent arrive unchanged");
  ASSERT(RD(uint8_t, ret, 0) == rtag && (rtag == 0 ? RD(uint32_t, ret, 8) == (uint32_t) rbits : RD(uint64_t, ret, 8) == rbits), "C10: the returned case and payload bits are stored at the canonical offsets");
}
/* ================================================================== C10 + C11: heap data, bounded lengths */
static void any_lengths(size_t *n, size_t *m) {
  *n = nondet_uint(); *m = nondet_uint(); __CPROVER_assume(*n <= 2 && *m <= 2);
}
void c10_c11_string(void) {
  stale_ret_area();
  size_t n, m; any_lengths(&n, &m);
  cu_t in[2] = { nondet_cu(), nondet_cu() }; ret_u[0] = nondet_cu(); ret_u[1] = nondet_cu(); ret_len = m;
  uint8_t *p = host_alloc(CUSZ * n, CUSZ); if (n) fill_units((cu_t *) p, n, in);
  uint8_t *ret = __wasm_export_exports_valprobe_echo_str(p, n);
  ASSERT(calls == 1 && seen_len == n && (n < 1 || seen_u[0] == in[0]) && (n < 2 || seen_u[1] == in[1]), "C10: the string the host sent arrives unchanged");
  cu_t *rp = RD(cu_t *, ret, 0); size_t rl = RD(size_t, ret, P);
  ASSERT(rl == m && (m < 1 || rp[0] == ret_u[0]) && (m < 2 || rp[1] == ret_u[1]), "C10: the string the guest returned reaches the host unchanged");
  __wasm_export_exports_valprobe_echo_str_post_return(ret);   /* C11: with CBMC's leak / double-free / bounds checks */
}
void c10_c11_list_u32(void) {
  stale_ret_area();
  size_t n, m; any_lengths(&n, &m);
  uint32_t in[2] = { nondet_uint(), nondet_uint() }; ret_w[0] = nondet_uint(); ret_w[1] = nondet_uint(); ret_len = m;
  uint8_t *p = host_alloc(4 * n, 4);
  if (n >= 1) ((uint32_t *) p)[0] = in[0]; if (n >= 2) ((uint32_t *) p)[1] = in[1];
  uint8_t *ret = __wasm_export_exports_valprobe_echo_words(p, n);
  ASSERT(calls == 1 && seen_len == n && (n < 1 || seen_w[0] == in[0]) && (n < 2 || seen_w[1] == in[1]), "C10: the list the host sent arrives unchanged, in order");
  uint8_t *rp = RD(uint8_t *, ret, 0); size_t rl = RD(size_t, ret, P);
  ASSERT(rl == m && (m < 1 || RD(uint32_t, rp, 0) == ret_w[0]) && (m < 2 || RD(uint32_t, rp, 4) == ret_w[1]), "C10: the list the guest returned reaches the host unchanged, in order");
  __wasm_export_exports_valprobe_echo_words_post_return(ret);
}
void c10_c11_list_of_tuples(void) {
  stale_ret_area();
  size_t n, m; any_lengths(&n, &m);
  uint8_t a[2] = { nondet_uchar(), nondet_uchar() }, c[2] = { nondet_uchar(), nondet_uchar() }; uint32_t b[2] = { nondet_uint(), nondet_uint() };
  for (int i = 0; i < 2; i++) { ret_t[i].f0 = nondet_uchar(); ret_t[i].f1 = nondet_uint(); ret_t[i].f2 = nondet_uchar(); }
  ret_len = m;
  uint8_t *p = host_alloc(12 * n, 4);   /* canonical element: u8 @0, u32 @4, u8 @8, size 12 */
  for (size_t i = 0; i < n; i++) { RD(uint8_t, p, 12 * i) = a[i]; RD(uint32_t, p, 12 * i + 4) = b[i]; RD(uint8_t, p, 12 * i + 8) = c[i]; }
  uint8_t *ret = __wasm_export_exports_valprobe_echo_pairs(p, n);
  ASSERT(calls == 1 && seen_len == n, "C10: list length");
  for (size_t i = 0; i < n; i++) ASSERT(seen_t[i].f0 == a[i] && seen_t[i].f1 == b[i] && seen_t[i].f2 == c[i], "C10: each tuple the host sent arrives unchanged");
  uint8_t *rp = RD(uint8_t *, ret, 0); size_t rl = RD(size_t, ret, P);
  ASSERT(rl == m, "C10: returned length");
  for (size_t i = 0; i < m; i++) ASSERT(RD(uint8_t, rp, 12 * i) == ret_t[i].f0 && RD(uint32_t, rp, 12 * i + 4) == ret_t[i].f1 && RD(uint8_t, rp, 12 * i + 8) == ret_t[i].f2, "C10: each returned tuple in the canonical element layout");
  __wasm_export_exports_valprobe_echo_pairs_post_return(ret);
}
void c10_c11_variant_string(void) {
  stale_ret_area();
  size_t n, m; any_lengths(&n, &m);
  cu_t in[2] = { nondet_cu(), nondet_cu() }; ret_u[0] = nondet_cu(); ret_u[1] = nondet_cu(); ret_len = m;
  _Bool ret_label = nondet_bool(); ret_shape_tag = ret_label ? 3 : 1; ret_shape_num = 9;
  uint8_t *p = host_alloc(CUSZ * n, CUSZ); if (n) fill_units((cu_t *) p, n, in);
  uint8_t *ret = __wasm_export_exports_valprobe_echo_shape(3, (int64_t) (uint32_t) p, n);   /* a pointer in the joined slot */
  ASSERT(calls == 1 && seen_shape_tag == 3 && seen_len == n && (n < 1 || seen_u[0] == in[0]) && (n < 2 || seen_u[1] == in[1]), "C10: the label the host sent arrives unchanged");
  if (ret_label) {
    cu_t *rp = RD(cu_t *, ret, 8); size_t rl = RD(size_t, ret, 8 + P);
    ASSERT(RD(uint8_t, ret, 0) == 3 && rl == m && (m < 1 || rp[0] == ret_u[0]) && (m < 2 || rp[1] == ret_u[1]), "C10: the label the guest returned reaches the host unchanged");
  } else {
    ASSERT(RD(uint8_t, ret, 0) == 1 && RD(uint32_t, ret, 8) == 9, "C10: the numeric case is stored");
  }
  __wasm_export_exports_valprobe_echo_shape_post_return(ret);
}
void c10_c11_list_of_strings(void) {
  stale_ret_area();
  size_t n = nondet_uint(), m = nondet_uint(); __CPROVER_assume(n <= 1 && m <= 1);
  size_t inl = nondet_uint(); __CPROVER_assume(inl <= 1); ret_inner_len = nondet_uint(); __CPROVER_assume(ret_inner_len <= 1);
  cu_t inb = nondet_cu(); ret_u[0] = nondet_cu(); ret_len = m;
  uint8_t *list = host_alloc(2 * P * n, P);
  if (n) { uint8_t *e = host_alloc(CUSZ * inl, CUSZ); if (inl) ((cu_t *) e)[0] = inb; RD(uint8_t *, list, 0) = e; RD(size_t, list, P) = inl; }
  uint8_t *ret = __wasm_export_exports_valprobe_echo_strs(list, n);
  ASSERT(calls == 1 && seen_len == n && (n < 1 || (seen_inner_len == inl && (inl < 1 || seen_u[0] == inb))), "C10: the list of strings the host sent arrives unchanged");
  uint8_t *rp = RD(uint8_t *, ret, 0); size_t rl = RD(size_t, ret, P);
  ASSERT(rl == m, "C10: returned length");
  if (m) { cu_t *ep = RD(cu_t *, rp, 0); size_t el = RD(size_t, rp, P); ASSERT(el == ret_inner_len && (el < 1 || ep[0] == ret_u[0]), "C10: the returned element reaches the host unchanged"); }
  __wasm_export_exports_valprobe_echo_strs_post_return(ret);
}
void c10_c11_record_with_heap_fields(void) {
  stale_ret_area();
  size_t n = nondet_uint(), t = nondet_uint(), m = nondet_uint(), u = nondet_uint(); __CPROVER_assume(n <= 2 && t <= 2 && m <= 2 && u <= 2);
  uint16_t id = nondet_uint(); uint8_t age = nondet_uchar(); ret_person.id = nondet_uint(); ret_person.age = nondet_uchar();
  cu_t nameb[2] = { nondet_cu(), nondet_cu() }; uint8_t tagb[2] = { nondet_uchar(), nondet_uchar() };
  ret_u[0] = nondet_cu(); ret_u[1] = nondet_cu(); ret_len = m; ret_tags[0] = nondet_uchar(); ret_tags[1] = nondet_uchar(); ret_tags_len = u;
  uint8_t *pn = host_alloc(CUSZ * n, CUSZ); if (n) fill_units((cu_t *) pn, n, nameb);
  uint8_t *pt = host_alloc(t, 1); if (t) fill_bytes(pt, t, tagb);
  uint8_t *ret = __wasm_export_exports_valprobe_echo_person((int32_t) id, pn, n, pt, t, (int32_t) age);
  ASSERT(calls == 1 && seen_person.id == id && seen_person.age == age, "C10: the record's scalar fields arrive unchanged");
  ASSERT(seen_len == n && (n < 1 || seen_u[0] == nameb[0]) && (n < 2 || seen_u[1] == nameb[1]), "C10: the record's string field arrives unchanged");
  ASSERT(seen_person.tags.len == t && (t < 1 || seen_tags[0] == tagb[0]) && (t < 2 || seen_tags[1] == tagb[1]), "C10: the record's list field arrives unchanged");
  ASSERT(RD(uint16_t, ret, 0) == ret_person.id && RD(uint8_t, ret, 5 * P) == ret_person.age, "C10: the returned scalar fields at their canonical offsets (u16 @0, u8 @5P)");
  cu_t *np = RD(cu_t *, ret, P); size_t nl = RD(size_t, ret, 2 * P);
  ASSERT(nl == m && (m < 1 || np[0] == ret_u[0]) && (m < 2 || np[1] == ret_u[1]), "C10: the returned string field reaches the host unchanged");
  uint8_t *tp = RD(uint8_t *, ret, 3 * P); size_t tl = RD(size_t, ret, 4 * P);
  ASSERT(tl == u && (u < 1 || tp[0] == ret_tags[0]) && (u < 2 || tp[1] == ret_tags[1]), "C10: the returned list field reaches the host unchanged");
  __wasm_export_exports_valprobe_echo_person_post_return(ret);
}
void c10_c11_result_with_string(void) {
  stale_ret_area();
  size_t n, m; any_lengths(&n, &m);
  _Bool in_err = nondet_bool(); ret_rstr_err = nondet_bool(); uint32_t e = nondet_uint(); ret_rstr_code = nondet_uint();
  cu_t in[2] = { nondet_cu(), nondet_cu() }; ret_u[0] = nondet_cu(); ret_u[1] = nondet_cu(); ret_len = m;
  uint8_t *ret;
  if (in_err) {
    ret = __wasm_export_exports_valprobe_echo_rstr(1, (uint8_t *) e, 0);   /* the i32 error code travels in the slot it shares with the pointer */
  } else {
    uint8_t *p = host_alloc(CUSZ * n, CUSZ); if (n) fill_units((cu_t *) p, n, in);
    ret = __wasm_export_exports_valprobe_echo_rstr(0, p, n);
  }
  ASSERT(calls == 1 && seen_rstr_err == in_err, "C10: the result's case arrives unchanged");
  ASSERT(in_err ? seen_rstr_code == e : (seen_len == n && (n < 1 || seen_u[0] == in[0]) && (n < 2 || seen_u[1] == in[1])), "C10: the result's payload arrives unchanged");
  if (ret_rstr_err) {
    ASSERT(RD(uint8_t, ret, 0) == 1 && RD(uint32_t, ret, P) == ret_rstr_code, "C10: err(u32) is stored at the payload offset");
  } else {
    cu_t *rp = RD(cu_t *, ret, P); size_t rl = RD(size_t, ret, 2 * P);
    ASSERT(RD(uint8_t, ret, 0) == 0 && rl == m && (m < 1 || rp[0] == ret_u[0]) && (m < 2 || rp[1] == ret_u[1]), "C10: ok(string) reaches the host unchanged");
  }
  __wasm_export_exports_valprobe_echo_rstr_post_return(ret);
}
/* heap data returned by an import belongs to the caller: the values arrive unchanged and the generated free helper releases all of it */
void c10_c11_import_result_list_of_strings(void) {
  fetch_len = nondet_uint(); fetch_inner = nondet_uint(); __CPROVER_assume(fetch_len <= 2 && fetch_inner <= 1); fetch_unit = nondet_cu();
  uint32_t n = nondet_uint(); valprobe_list_string_t r;
  verif_val_sinks_fetch_names(n, &r);
  ASSERT(fetch_calls == 1 && fetch_arg == n, "C10: exactly one core call with the flat argument");
  ASSERT(r.len == fetch_len, "C10: the list the host returned arrives with its length");
  for (size_t i = 0; i < fetch_len; i++) ASSERT(r.ptr[i].len == fetch_inner && (!fetch_inner || r.ptr[i].ptr[0] == fetch_unit), "C10: each string the host returned arrives unchanged");
  valprobe_list_string_free(&r);   /* C11: the caller owns the result; the generated helper releases every string and the list (leak check) */
}
/* a string and a canonical list passed to an import: the wrapper hands over (pointer, length) and touches nothing else, so the pointers and
 * lengths are arbitrary here - EVERY length, not a bounded one (a wrapper that narrowed a length would be seen at 256 or 65536) */
void c10_import_string_and_list_any_length(void) {
  valprobe_string_t s; s.ptr = (cu_t *) nondet_uint(); s.len = nondet_uint();
  valprobe_list_u32_t l; l.ptr = (uint32_t *) nondet_uint(); l.len = nondet_uint();
  valprobe_string_t s0 = s; valprobe_list_u32_t l0 = l;
  uint32_t r = verif_val_sinks_take_str(&s, &l);
  ASSERT(take_calls == 1 && r == 7, "C10: exactly one core call, its result returned");
  ASSERT(take_sp == (uint8_t *) s0.ptr && take_sl == s0.len, "C10: the string crosses as exactly its pointer and its length in code units, for every length");
  ASSERT(take_lp == (uint8_t *) l0.ptr && take_ll == l0.len, "C10: the list crosses as exactly its pointer and its element count, for every length");
  ASSERT(s.ptr == s0.ptr && s.len == s0.len && l.ptr == l0.ptr && l.len == l0.len, "C11: import arguments are left untouched");
}
/* import arguments are borrowed: passed, left untouched, still owned (and freed) by the caller */
void c11_import_arguments_untouched(void) {
  stale_ret_area();
  _Bool some = nondet_bool(); cu_t b = nondet_cu();
  valprobe_string_t s; s.len = 1; s.ptr = (cu_t *) malloc(CUSZ); __CPROVER_assume(s.ptr != NULL); s.ptr[0] = b;
  valprobe_list_string_t l; l.ptr = &s; l.len = 1;
#ifdef NOFLAT
  valprobe_option_list_string_t o; o.is_some = some; if (some) o.val = l;
  uint32_t r = verif_val_sinks_nested_list(&o);
#else
  uint32_t r = verif_val_sinks_nested_list(some ? &l : NULL);
#endif
  ASSERT(sink_calls == 1 && r == (some ? 1u : 0u) && sink_disc == (some ? 1 : 0), "C11: exactly one core call");
  if (some) ASSERT(sink_len == 1 && sink_elem_ptr == (uint8_t *) s.ptr && sink_elem_len == 1, "C11: the callee sees the caller's own buffers (no copy)");
  ASSERT(l.len == 1 && l.ptr == &s && s.len == 1 && s.ptr[0] == b, "C11: import arguments are left untouched");
  free(s.ptr);   /* still the caller's to free: a second free by the bindings would be a double free */
}
/* vacuity canary: must FAIL */
void canary_must_fail(void) { uint8_t x = nondet_uchar(); ASSERT(x != 7, "canary"); }
