#ifndef VERIF_STDBOOL_H
#define VERIF_STDBOOL_H
#define bool _Bool
#define true 1
#define false 0
#endif
