#ifndef VERIF_STDDEF_H
#define VERIF_STDDEF_H
typedef __SIZE_TYPE__ size_t;
typedef __PTRDIFF_TYPE__ ptrdiff_t;
#define NULL ((void*)0)
#endif
