/* minimal ILP32 (wasm32) <stdint.h> for CBMC --32: the sandbox has no 32-bit libc headers */
#ifndef VERIF_STDINT_H
#define VERIF_STDINT_H
typedef signed char int8_t; typedef unsigned char uint8_t;
typedef short int16_t; typedef unsigned short uint16_t;
typedef int int32_t; typedef unsigned int uint32_t;
typedef long long int64_t; typedef unsigned long long uint64_t;
typedef int intptr_t; typedef unsigned int uintptr_t;
#define INT32_MAX 2147483647
#define UINT32_MAX 4294967295u
#endif
