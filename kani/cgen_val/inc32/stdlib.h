#ifndef VERIF_STDLIB_H
#define VERIF_STDLIB_H
#include <stddef.h>
void *malloc(size_t); void free(void *); void *realloc(void *, size_t); void *calloc(size_t, size_t); void abort(void);
#endif
