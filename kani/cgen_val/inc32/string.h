#ifndef VERIF_STRING_H
#define VERIF_STRING_H
#include <stddef.h>
void *memcpy(void *, const void *, size_t); void *memset(void *, int, size_t); size_t strlen(const char *); int memcmp(const void *, const void *, size_t);
#endif
