/* minimal <uchar.h> for the ILP32 data model (see stdint.h in this directory) */
#ifndef VERIF_UCHAR_H
#define VERIF_UCHAR_H
#include <stdint.h>
typedef uint16_t char16_t;
typedef uint32_t char32_t;
#endif
