//! C14 (Rust backend, end to end): `probe.rs` next to this file is the output of the REAL Rust generator
//! (`wit-bindgen rust kani/rustgen/probe.wit`, built from /repo on every run) — nothing in it is hand-written.
//! Each generated export trampoline `_export_f_<ty>_cabi` lifts its core argument, calls the user's function and lowers the
//! result; the user's function below records what it was given and returns a value chosen by the harness, so lifting
//! and lowering are observed separately, for EVERY core value and EVERY result value (loop-free, full domain).
//!
//! Spec side (CanonicalABI.md lift_flat / lower_flat for scalars), written with plain integer arithmetic:
#![allow(unused, static_mut_refs, non_snake_case)]
include!("probe.rs");

/// lift_flat_unsigned: the low `w` bits of the core value
pub fn spec_lift_unsigned(core: u64, w: u32) -> i128 {
    (core as i128) % (1i128 << w)
}
/// lift_flat_signed: the low `w` bits, values >= 2^(w-1) wrap to negative
pub fn spec_lift_signed(core: u64, w: u32) -> i128 {
    let i = (core as i128) % (1i128 << w);
    if i >= (1i128 << (w - 1)) { i - (1i128 << w) } else { i }
}
/// lower_flat of an integer value into a core value of `cw` bits: negative values wrap (two's complement)
pub fn spec_lower(v: i128, cw: u32) -> u64 {
    (if v < 0 { v + (1i128 << cw) } else { v }) as u64
}

pub struct Impl;
macro_rules! slot { ($seen:ident, $ret:ident, $t:ty, $z:expr) => { pub static mut $seen: $t = $z; pub static mut $ret: $t = $z; }; }
slot!(SEEN_U8, RET_U8, u8, 0);
slot!(SEEN_S8, RET_S8, i8, 0);
slot!(SEEN_U16, RET_U16, u16, 0);
slot!(SEEN_S16, RET_S16, i16, 0);
slot!(SEEN_U32, RET_U32, u32, 0);
slot!(SEEN_S32, RET_S32, i32, 0);
slot!(SEEN_U64, RET_U64, u64, 0);
slot!(SEEN_S64, RET_S64, i64, 0);
slot!(SEEN_F32, RET_F32, f32, 0.0);
slot!(SEEN_F64, RET_F64, f64, 0.0);
slot!(SEEN_CHAR, RET_CHAR, char, 'a');
slot!(SEEN_BOOL, RET_BOOL, bool, false);
pub static mut CALLS: u32 = 0;
macro_rules! echo { ($f:ident, $t:ty, $seen:ident, $ret:ident) => { fn $f(a: $t) -> $t { unsafe { CALLS += 1; $seen = a; $ret } } }; }
impl Guest for Impl {
    echo!(f_u8, u8, SEEN_U8, RET_U8);
    echo!(f_s8, i8, SEEN_S8, RET_S8);
    echo!(f_u16, u16, SEEN_U16, RET_U16);
    echo!(f_s16, i16, SEEN_S16, RET_S16);
    echo!(f_u32, u32, SEEN_U32, RET_U32);
    echo!(f_s32, i32, SEEN_S32, RET_S32);
    echo!(f_u64, u64, SEEN_U64, RET_U64);
    echo!(f_s64, i64, SEEN_S64, RET_S64);
    echo!(f_f32, f32, SEEN_F32, RET_F32);
    echo!(f_f64, f64, SEEN_F64, RET_F64);
    echo!(f_char, char, SEEN_CHAR, RET_CHAR);
    echo!(f_bool, bool, SEEN_BOOL, RET_BOOL);
}

#[cfg(kani)]
mod proofs {
    use super::*;

    /// vacuity canary: must FAIL
    #[kani::proof]
    pub fn verif_canary_must_fail() {
        let x: u8 = kani::any();
        assert!(x != 7);
    }

    macro_rules! int_case {
        ($name:ident, $tramp:ident, $core:ty, $ucore:ty, $cw:expr, $t:ty, $w:expr, $signed:expr, $seen:ident, $ret:ident) => {
            #[kani::proof]
            pub fn $name() {
                let x: $core = kani::any();
                let v: $t = kani::any();
                unsafe {
                    $ret = v;
                    let r = $tramp::<Impl>(x);
                    kani::assert(CALLS == 1, "the user function is called exactly once");
                    let want = if $signed { spec_lift_signed(x as $ucore as u64, $w) } else { spec_lift_unsigned(x as $ucore as u64, $w) };
                    kani::assert($seen as i128 == want, "lift: the value handed to the user function is not the canonical one for this core value");
                    kani::assert(r as $ucore as u64 == spec_lower(v as i128, $cw), "lower: the core value returned is not the canonical one for the user's result");
                }
            }
        };
    }
    int_case!(c14_rust_u8, _export_f_u8_cabi, i32, u32, 32, u8, 8, false, SEEN_U8, RET_U8);
    int_case!(c14_rust_s8, _export_f_s8_cabi, i32, u32, 32, i8, 8, true, SEEN_S8, RET_S8);
    int_case!(c14_rust_u16, _export_f_u16_cabi, i32, u32, 32, u16, 16, false, SEEN_U16, RET_U16);
    int_case!(c14_rust_s16, _export_f_s16_cabi, i32, u32, 32, i16, 16, true, SEEN_S16, RET_S16);
    int_case!(c14_rust_u32, _export_f_u32_cabi, i32, u32, 32, u32, 32, false, SEEN_U32, RET_U32);
    int_case!(c14_rust_s32, _export_f_s32_cabi, i32, u32, 32, i32, 32, true, SEEN_S32, RET_S32);
    int_case!(c14_rust_u64, _export_f_u64_cabi, i64, u64, 64, u64, 64, false, SEEN_U64, RET_U64);
    int_case!(c14_rust_s64, _export_f_s64_cabi, i64, u64, 64, i64, 64, true, SEEN_S64, RET_S64);

    #[kani::proof]
    pub fn c14_rust_f32() {
        let x: f32 = kani::any();
        let v: f32 = kani::any();
        unsafe {
            RET_F32 = v;
            let r = _export_f_f32_cabi::<Impl>(x);
            kani::assert(CALLS == 1 && SEEN_F32.to_bits() == x.to_bits(), "lift: f32 is passed bit-exactly");
            kani::assert(r.to_bits() == v.to_bits(), "lower: f32 is returned bit-exactly");
        }
    }
    #[kani::proof]
    pub fn c14_rust_f64() {
        let x: f64 = kani::any();
        let v: f64 = kani::any();
        unsafe {
            RET_F64 = v;
            let r = _export_f_f64_cabi::<Impl>(x);
            kani::assert(CALLS == 1 && SEEN_F64.to_bits() == x.to_bits(), "lift: f64 is passed bit-exactly");
            kani::assert(r.to_bits() == v.to_bits(), "lower: f64 is returned bit-exactly");
        }
    }
    #[kani::proof]
    pub fn c14_rust_char() {
        let x: i32 = kani::any();
        // the host only sends Unicode scalar values (anything else traps in the spec's lift)
        kani::assume((x as u32) < 0x110000 && !((x as u32) >= 0xD800 && (x as u32) <= 0xDFFF));
        let v: char = kani::any();
        unsafe {
            RET_CHAR = v;
            let r = _export_f_char_cabi::<Impl>(x);
            kani::assert(CALLS == 1 && SEEN_CHAR as u32 == x as u32, "lift: a char is its scalar value");
            kani::assert(r as u32 == v as u32, "lower: a char travels as its scalar value");
        }
    }
    #[kani::proof]
    pub fn c14_rust_bool() {
        let x: i32 = kani::any();
        kani::assume(x == 0 || x == 1);
        let v: bool = kani::any();
        unsafe {
            RET_BOOL = v;
            let r = _export_f_bool_cabi::<Impl>(x);
            kani::assert(CALLS == 1 && SEEN_BOOL == (x == 1), "lift: 0 is false, 1 is true");
            kani::assert(r == if v { 1 } else { 0 }, "lower: false/true travel as 0/1");
        }
    }
}
