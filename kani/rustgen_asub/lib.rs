//! C08, generated side of an async import (partial, bounded): `probe.rs` is the output of the REAL Rust generator for
//! kani/rustgen_asub/probe.wit with rules R1 (mock host behind the `[async-lower]` imports) and R2 (the function-local `Subtask`
//! implementation of each async import copied verbatim into a nameable sibling module).  The runtime drives these callbacks
//! (`Subtask::call`: C21 proves, with a mock `Subtask`, WHEN each callback runs for every host schedule - params_lower once before
//! the call, params_dealloc_lists exactly once and only once the callee has started, params_dealloc_lists_and_own iff cancelled
//! before starting, results_lift once after RETURNED).  This crate proves WHAT the generated callbacks do: the parameters are
//! lowered canonically into buffers that stay allocated, the core call gets exactly those, each release callback frees exactly
//! the lowered buffers once, and results are lifted from the result area - the same values and the same memory a sync binding
//! handles in one go.
#![allow(unused, static_mut_refs, non_snake_case)]
include!("probe.rs");
extern crate alloc;
pub const P: usize = core::mem::size_of::<usize>();

// ------------------------------------------------------------------------------------------------ allocation ledger
// seven slots, handled without loops (loops in allocator stubs multiply CBMC's unwinding work)
pub static mut L0: (usize, usize, usize) = (0, 0, 0); // (ptr, size, align); ptr 0 = free slot
pub static mut L1: (usize, usize, usize) = (0, 0, 0);
pub static mut L2: (usize, usize, usize) = (0, 0, 0);
pub static mut L3: (usize, usize, usize) = (0, 0, 0);
pub static mut L4: (usize, usize, usize) = (0, 0, 0);
pub static mut L5: (usize, usize, usize) = (0, 0, 0);
pub static mut L6: (usize, usize, usize) = (0, 0, 0);
pub static mut BAD_FREE: bool = false; // freed something not live, or with another layout
pub static mut LEDGER_FULL: bool = false;
pub static mut ALLOCS: u32 = 0;
pub static mut FREES: u32 = 0;
fn ledger_add(p: usize, size: usize, align: usize) {
    unsafe {
        let e = (p, size, align);
        if L0.0 == 0 {
            L0 = e;
        } else if L1.0 == 0 {
            L1 = e;
        } else if L2.0 == 0 {
            L2 = e;
        } else if L3.0 == 0 {
            L3 = e;
        } else if L4.0 == 0 {
            L4 = e;
        } else if L5.0 == 0 {
            L5 = e;
        } else if L6.0 == 0 {
            L6 = e;
        } else {
            LEDGER_FULL = true;
        }
    }
}
fn ledger_remove(p: usize, size: usize, align: usize) {
    unsafe {
        let e = (p, size, align);
        if L0 == e {
            L0 = (0, 0, 0);
        } else if L1 == e {
            L1 = (0, 0, 0);
        } else if L2 == e {
            L2 = (0, 0, 0);
        } else if L3 == e {
            L3 = (0, 0, 0);
        } else if L4 == e {
            L4 = (0, 0, 0);
        } else if L5 == e {
            L5 = (0, 0, 0);
        } else if L6 == e {
            L6 = (0, 0, 0);
        } else {
            BAD_FREE = true;
        }
    }
}
pub fn is_live(p: usize) -> bool {
    unsafe { p != 0 && (L0.0 == p || L1.0 == p || L2.0 == p || L3.0 == p || L4.0 == p || L5.0 == p || L6.0 == p) }
}
pub fn live_blocks() -> usize {
    unsafe { (L0.0 != 0) as usize + (L1.0 != 0) as usize + (L2.0 != 0) as usize + (L3.0 != 0) as usize + (L4.0 != 0) as usize + (L5.0 != 0) as usize + (L6.0 != 0) as usize }
}
// (std's `Global` goes through the private `dealloc_nonnull` / `realloc_nonnull`, which are stubbed as well.)
// The stubs replace alloc / dealloc / realloc everywhere (Vec, String, Box, the generated code).  A stub cannot call the
// function it replaces, so memory is obtained from `alloc_zeroed` (not stubbed: Kani's allocator model) and is never
// handed back to the model: a "free" only updates the ledger.  Consequences: double frees, frees with a foreign layout and
// leaks are observed by the ledger; reads/writes outside a block by CBMC's pointer checks; a read AFTER free is not.
pub unsafe fn alloc_stub(layout: core::alloc::Layout) -> *mut u8 {
    unsafe {
        let p = alloc::alloc::alloc_zeroed(layout);
        ALLOCS += 1;
        if !p.is_null() {
            ledger_add(p as usize, layout.size(), layout.align());
        }
        p
    }
}
pub unsafe fn dealloc_stub(ptr: *mut u8, layout: core::alloc::Layout) {
    unsafe {
        FREES += 1;
        ledger_remove(ptr as usize, layout.size(), layout.align());
    }
}
pub unsafe fn dealloc_nonnull_stub(ptr: core::ptr::NonNull<u8>, layout: core::alloc::Layout) {
    unsafe { dealloc_stub(ptr.as_ptr(), layout) }
}
pub unsafe fn realloc_nonnull_stub(ptr: core::ptr::NonNull<u8>, layout: core::alloc::Layout, new_size: usize) -> *mut u8 {
    unsafe { realloc_stub(ptr.as_ptr(), layout, new_size) }
}
pub unsafe fn realloc_stub(ptr: *mut u8, layout: core::alloc::Layout, new_size: usize) -> *mut u8 {
    unsafe {
        ledger_remove(ptr as usize, layout.size(), layout.align());
        let p = alloc::alloc::alloc_zeroed(core::alloc::Layout::from_size_align_unchecked(new_size, layout.align()));
        if !p.is_null() {
            let n = if layout.size() < new_size { layout.size() } else { new_size };
            core::ptr::copy_nonoverlapping(ptr, p, n);
            ledger_add(p as usize, new_size, layout.align());
        }
        p
    }
}

// ------------------------------------------------------------------------------------------------ mock host (rule R1)
pub static mut CALLS: u32 = 0;
pub static mut SEEN_A: (usize, usize, bool) = (0, 0, false); // (pointer, length, still allocated) of the first buffer the callee saw
pub static mut SEEN_B: (usize, usize, bool) = (0, 0, false);
pub static mut SEEN_N: u32 = 0;
pub static mut SEEN_BLOCK: usize = 0;
pub static mut SEEN_RESULTS: usize = 0;
pub static mut STATUS: i32 = 2;
pub static mut WIDE_ANSWER: u64 = 0;
pub mod mockhost {
    use super::*;
    pub unsafe fn verif_asub_imp___async_lower_greet(p: *mut u8, len: usize, results: *mut u8) -> i32 {
        unsafe {
            CALLS += 1;
            SEEN_A = (p as usize, len, len == 0 || is_live(p as usize));
            SEEN_RESULTS = results as usize;
            STATUS
        }
    }
    pub unsafe fn verif_asub_imp___async_lower_store(block: *mut u8, results: *mut u8) -> i32 {
        unsafe {
            CALLS += 1;
            SEEN_BLOCK = block as usize;
            let (p0, l0): (usize, usize) = (block.cast::<usize>().read(), block.add(P).cast::<usize>().read());
            let (p1, l1): (usize, usize) = (block.add(2 * P).cast::<usize>().read(), block.add(3 * P).cast::<usize>().read());
            SEEN_A = (p0, l0, l0 == 0 || is_live(p0));
            SEEN_B = (p1, l1, l1 == 0 || is_live(p1));
            SEEN_N = block.add(4 * P).cast::<u32>().read();
            SEEN_RESULTS = results as usize;
            STATUS
        }
    }
    pub unsafe fn verif_asub_imp___async_lower_wide(block: *mut u8, results: *mut u8) -> i32 {
        unsafe {
            CALLS += 1;
            SEEN_BLOCK = block as usize;
            SEEN_RESULTS = results as usize;
            SEEN_N = block.add(16).cast::<u32>().read(); // the fifth u32
            if STATUS == 2 {
                results.cast::<u64>().write(WIDE_ANSWER); // the host stores the result at the pointer it was given (it traps if that is misaligned)
            }
            STATUS
        }
    }
    pub unsafe fn verif_asub_imp___async_lower_narrow(block: *mut u8, results: *mut u8) -> i32 {
        unsafe {
            CALLS += 1;
            SEEN_BLOCK = block as usize;
            SEEN_RESULTS = results as usize;
            SEEN_N = block.add(4).cast::<u8>().read() as u32; // the fifth u8
            if STATUS == 2 {
                results.cast::<u32>().write(WIDE_ANSWER as u32);
            }
            STATUS
        }
    }
    pub unsafe fn verif_asub_imp___async_lower_many(p: *mut u8, len: usize, results: *mut u8) -> i32 {
        unsafe {
            CALLS += 1;
            SEEN_A = (p as usize, len, len == 0 || is_live(p as usize));
            SEEN_RESULTS = results as usize;
            STATUS
        }
    }
}

#[cfg(kani)]
mod proofs {
    use super::*;
    use core::alloc::Layout;
    use wit_bindgen::rt::async_support::Subtask;

    #[kani::proof]
    fn verif_canary_must_fail() {
        let x: u8 = kani::any();
        assert!(x != 7);
    }
    fn ascii2() -> [u8; 2] {
        let b: [u8; 2] = kani::any();
        kani::assume(b[0] < 0x80 && b[1] < 0x80);
        b
    }
    fn string_of(b: &[u8; 2], n: usize) -> String {
        let mut v: Vec<u8> = Vec::new();
        if n >= 1 { v.push(b[0]); }
        if n >= 2 { v.push(b[1]); }
        unsafe { String::from_utf8_unchecked(v) }
    }
    fn vec_of(b: &[u8; 2], n: usize) -> Vec<u8> {
        let mut v: Vec<u8> = Vec::new();
        if n >= 1 { v.push(b[0]); }
        if n >= 2 { v.push(b[1]); }
        v
    }
    fn from_utf8_stub(v: Vec<u8>) -> Result<String, alloc::string::FromUtf8Error> {
        Ok(unsafe { String::from_utf8_unchecked(v) })
    }
    unsafe fn bytes_at(p: usize, n: usize, b: &[u8; 2]) -> bool {
        unsafe { (n < 1 || *(p as *const u8) == b[0]) && (n < 2 || *(p as *const u8).add(1) == b[1]) }
    }
    /// which release callback the runtime picks depends on the host's schedule (C21); both must free exactly the lowered buffers
    fn release<T: Subtask>(t: &mut T, lower: T::ParamsLower, and_own: bool) {
        unsafe { if and_own { t.params_dealloc_lists_and_own(lower) } else { t.params_dealloc_lists(lower) } }
    }

    // ---- greet(string) -> string : flat parameters
    macro_rules! ledger_proof {
        ($(#[$m:meta])* fn $name:ident() $body:block) => {
            #[kani::proof]
            #[kani::unwind(4)]
            #[kani::stub(alloc::alloc::alloc, alloc_stub)]
            #[kani::stub(alloc::alloc::dealloc, dealloc_stub)]
            #[kani::stub(alloc::alloc::realloc, realloc_stub)]
            #[kani::stub(alloc::alloc::dealloc_nonnull, dealloc_nonnull_stub)]
            #[kani::stub(alloc::alloc::realloc_nonnull, realloc_nonnull_stub)]
            #[kani::stub(alloc::string::String::from_utf8, from_utf8_stub)]
            $(#[$m])*
            pub fn $name() $body
        };
    }
    ledger_proof! { fn c08_import_callbacks_flat_string() {
        use verif::asub::imp::verif_subtask_greet::{_MySubtask, ParamsLower};
        let n: usize = kani::any();
        kani::assume(n <= 2);
        let b = ascii2();
        let and_own: bool = kani::any();
        let mut t = _MySubtask { _unused: core::marker::PhantomData };
        unsafe {
            let layout = t.abi_layout();
            let off = t.results_offset();
            kani::assert(layout.size() >= off + 2 * P && layout.align() >= P && off % P == 0, "the call's memory block holds the result (pointer, length) at an aligned offset");
            let block = alloc_stub(layout);
            kani::assume(!block.is_null());
            let lower = t.params_lower((string_of(&b, n),), block);
            kani::assert(lower.1 == n && bytes_at(lower.0 as usize, n, &b), "the string is lowered as (pointer, length) of the same bytes");
            kani::assert(n == 0 || is_live(lower.0 as usize), "the lowered buffer stays allocated after lowering (alive until the callee has started)");
            let code = t.call_import(lower, block.add(off));
            kani::assert(CALLS == 1 && code == 2 && SEEN_A.0 == lower.0 as usize && SEEN_A.1 == n && SEEN_A.2, "the core call receives exactly the lowered parameter, still allocated");
            kani::assert(SEEN_RESULTS == block as usize + off, "the core call receives the result area of the block");
            let before = live_blocks();
            release(&mut t, lower, and_own);
            kani::assert(!BAD_FREE && live_blocks() == before - (n > 0) as usize && (n == 0 || !is_live(lower.0 as usize)), "the release callback frees exactly the lowered buffer, once, with its layout");
            // the callee's answer: a one-byte string it allocated in the guest (through cabi_realloc)
            let rp = alloc_stub(Layout::from_size_align(1, 1).unwrap());
            kani::assume(!rp.is_null());
            *rp = b'k';
            let res = block.add(off);
            res.cast::<*mut u8>().write(rp);
            res.add(P).cast::<usize>().write(1);
            let got = t.results_lift(res);
            kani::assert(got.len() == 1 && got.as_bytes()[0] == b'k' && got.as_ptr() == rp as *const u8, "the result is lifted from the result area and takes the callee's buffer over");
            drop(got);
            kani::assert(!BAD_FREE && !is_live(rp as usize), "dropping the lifted result frees that buffer once");
            dealloc_stub(block, layout);
            kani::assert(!LEDGER_FULL, "HARNESS-LIMIT: allocation ledger full");
            kani::assert(!BAD_FREE && live_blocks() == 0, "nothing is left allocated");
        }
        kani::cover!(n == 2 && and_own);
        kani::cover!(n == 0 && !and_own);
    }}

    // ---- store(string, list<u8>, u32) -> list<u8> : more than four core values, so the parameters travel in the block
    ledger_proof! { fn c08_import_callbacks_indirect_params() {
        use verif::asub::imp::verif_subtask_store::{_MySubtask, ParamsLower};
        let (n, m): (usize, usize) = (kani::any(), kani::any());
        kani::assume(n <= 2 && m <= 2);
        let kb = ascii2();
        let db: [u8; 2] = kani::any();
        let x: u32 = kani::any();
        let and_own: bool = kani::any();
        let mut t = _MySubtask { _unused: core::marker::PhantomData };
        unsafe {
            let layout = t.abi_layout();
            let off = t.results_offset();
            kani::assert(off >= 4 * P + 4 && off % P == 0 && layout.size() >= off + 2 * P && layout.align() >= P,
                "the block holds the parameter record (ptr,len,ptr,len,u32) and, after it, the aligned result (pointer, length)");
            let block = alloc_stub(layout);
            kani::assume(!block.is_null());
            let lower = t.params_lower((string_of(&kb, n), vec_of(&db, m), x), block);
            kani::assert(lower.0 == block, "indirect parameters: the lowered form is the block's address");
            let code = t.call_import(lower, block.add(off));
            kani::assert(CALLS == 1 && code == 2 && SEEN_BLOCK == block as usize && SEEN_RESULTS == block as usize + off, "the core call receives the block and its result area");
            kani::assert(SEEN_A.1 == n && SEEN_A.2 && bytes_at(SEEN_A.0, n, &kb), "the callee reads the string's bytes from a buffer that is still allocated");
            kani::assert(SEEN_B.1 == m && SEEN_B.2 && bytes_at(SEEN_B.0, m, &db), "the callee reads the list's bytes from a buffer that is still allocated");
            kani::assert(SEEN_N == x, "the scalar is stored at its canonical offset in the record");
            let before = live_blocks();
            release(&mut t, lower, and_own);
            kani::assert(!BAD_FREE && live_blocks() == before - (n > 0) as usize - (m > 0) as usize, "the release callback frees exactly the two lowered buffers, once each");
            kani::assert((n == 0 || !is_live(SEEN_A.0)) && (m == 0 || !is_live(SEEN_B.0)) && is_live(block as usize), "... and not the block, which the runtime owns");
            let res = block.add(off);
            res.cast::<*mut u8>().write(1 as *mut u8);
            res.add(P).cast::<usize>().write(0);
            let got = t.results_lift(res);
            kani::assert(got.len() == 0, "an empty result list is lifted as empty");
            drop(got);
            dealloc_stub(block, layout);
            kani::assert(!LEDGER_FULL, "HARNESS-LIMIT: allocation ledger full");
            kani::assert(!BAD_FREE && live_blocks() == 0, "nothing is left allocated");
        }
        kani::cover!(n == 2 && m == 2);
        kani::cover!(n == 0 && m == 0);
    }}

    // ---- many(list<record { u64, string }>) -> u32 : a lowered list whose elements own buffers
    fn list_of_records(n: usize) {
        use verif::asub::imp::verif_subtask_many::{_MySubtask, ParamsLower};
        use verif::asub::imp::Entry;
        const ENTRY: usize = 8 + 2 * P;
        let k: usize = kani::any();
        kani::assume(k <= 1);
        let b = ascii2();
        let id: u64 = kani::any();
        let and_own: bool = kani::any();
        let mut t = _MySubtask { _unused: core::marker::PhantomData };
        unsafe {
            let layout = t.abi_layout();
            let off = t.results_offset();
            let block = alloc_stub(layout);
            kani::assume(!block.is_null());
            let mut v: Vec<Entry> = Vec::new();
            if n == 1 { v.push(Entry { id, name: string_of(&b, k) }); }
            let after_args = live_blocks();
            let lower = t.params_lower((v,), block);
            kani::assert(lower.1 == n, "the list is lowered as (pointer, length)");
            if n == 1 {
                let base = lower.0;
                kani::assert(is_live(base as usize), "the element buffer stays allocated");
                kani::assert(base.cast::<u64>().read() == id && base.add(8 + P).cast::<usize>().read() == k, "the element is stored in the canonical layout (u64 @0, pointer @8, length @8+P)");
                let sp = base.add(8).cast::<usize>().read();
                kani::assert(bytes_at(sp, k, &b) && (k == 0 || is_live(sp)), "the element's string bytes are unchanged and still allocated");
            }
            let code = t.call_import(lower, block.add(off));
            kani::assert(CALLS == 1 && SEEN_A.0 == lower.0 as usize && SEEN_A.1 == n && SEEN_A.2, "the core call receives exactly the lowered list, still allocated");
            release(&mut t, lower, and_own);
            kani::assert(!BAD_FREE && live_blocks() == 1, "the release callback frees the element buffer and every element's string, once each (only the block is left)");
            let res = block.add(off);
            let r: u32 = kani::any();
            res.cast::<u32>().write(r);
            kani::assert(t.results_lift(res) == r, "the scalar result is lifted from the result area");
            dealloc_stub(block, layout);
            kani::assert(!LEDGER_FULL, "HARNESS-LIMIT: allocation ledger full");
            kani::assert(!BAD_FREE && live_blocks() == 0, "nothing is left allocated");
        }
        kani::cover!(k == 1);
        kani::cover!(k == 0);
    }
    // the list length is fixed per harness (a symbolic length makes `Vec<Entry>::into_iter` and its drop glue too expensive for CBMC here)
    ledger_proof! { fn c08_import_callbacks_list_of_records_empty() { list_of_records(0); } }
    ledger_proof! { fn c08_import_callbacks_list_of_records_one() { list_of_records(1); } }

    // ---- wide(u32 x5) -> u64 and narrow(u8 x5) -> u32: the result is more strictly aligned than the parameter record
    #[kani::proof]
    pub fn c08_import_callbacks_result_slot_aligned_after_parameter_record() {
        let wide: bool = kani::any();
        let vals: [u32; 5] = kani::any();
        let ans: u64 = kani::any();
        unsafe {
            WIDE_ANSWER = ans;
            if wide {
                use verif::asub::imp::verif_subtask_wide::_MySubtask;
                let mut t = _MySubtask { _unused: core::marker::PhantomData };
                let layout = t.abi_layout();
                let off = t.results_offset();
                kani::assert(off >= 20 && off % 8 == 0, "the result slot starts after the parameter record (5 x u32) at an offset aligned for u64");
                kani::assert(layout.size() >= off + 8 && layout.align() >= 8, "the block holds the result and is aligned for it");
                let block = alloc::alloc::alloc_zeroed(layout);
                kani::assume(!block.is_null());
                let lower = t.params_lower((vals[0], vals[1], vals[2], vals[3], vals[4]), block);
                let code = t.call_import(lower, block.add(off));
                kani::assert(CALLS == 1 && code == 2 && SEEN_BLOCK == block as usize && SEEN_N == vals[4], "the core call receives the parameter record, each field at its canonical offset");
                kani::assert(SEEN_RESULTS == block as usize + off && SEEN_RESULTS % 8 == 0, "the result pointer handed to the host is aligned for the result type (a conforming host traps otherwise)");
                kani::assert(t.results_lift(block.add(off)) == ans, "the result is lifted from where the host stored it");
            } else {
                use verif::asub::imp::verif_subtask_narrow::_MySubtask;
                let mut t = _MySubtask { _unused: core::marker::PhantomData };
                let layout = t.abi_layout();
                let off = t.results_offset();
                kani::assert(off >= 5 && off % 4 == 0, "the result slot starts after the parameter record (5 x u8) at an offset aligned for u32");
                kani::assert(layout.size() >= off + 4 && layout.align() >= 4, "the block holds the result and is aligned for it");
                let block = alloc::alloc::alloc_zeroed(layout);
                kani::assume(!block.is_null());
                let lower = t.params_lower((vals[0] as u8, vals[1] as u8, vals[2] as u8, vals[3] as u8, vals[4] as u8), block);
                let code = t.call_import(lower, block.add(off));
                kani::assert(CALLS == 1 && code == 2 && SEEN_BLOCK == block as usize && SEEN_N == (vals[4] as u8) as u32, "the core call receives the parameter record, each field at its canonical offset");
                kani::assert(SEEN_RESULTS == block as usize + off && SEEN_RESULTS % 4 == 0, "the result pointer handed to the host is aligned for the result type");
                kani::assert(t.results_lift(block.add(off)) == ans as u32, "the result is lifted from where the host stored it");
            }
        }
        kani::cover!(wide);
        kani::cover!(!wide);
    }
}
