// Not used as a crate: the generated probe.rs of this directory is mounted INSIDE crates/guest-rust (module
// crate::rt::async_support::verif::c08::gen, see /verif/harness/c08.rs) because the generated async code must run on the
// real runtime with its private built-ins replaced by kani::stub, which needs in-crate paths.
