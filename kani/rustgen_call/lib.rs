//! C02 (partial: the Rust backend's instantiation of the shared call glue, one probe world): `probe.rs` is the output of the
//! REAL Rust generator for kani/rustgen_call/probe.wit; only rule R1 is applied (native import stand-ins call the mock host).
//! Functions with 16 and with 17 u32 parameters and one with a two-field result, each as import and as export: parameters
//! are passed flat up to the flat-parameter limit (16) and through a pointer to a canonically laid-out record beyond it;
//! a scalar result is returned directly, an aggregate through a return area; exactly one core call is made; the caller-
//! allocated parameter record of an export is freed exactly once.
#![allow(unused, static_mut_refs, non_snake_case)]
include!("probe.rs");
extern crate alloc;
use verif::call::imp;

// ---- mock host for the imports: records the core call it received
pub static mut IMPORT_CALLS: u32 = 0;
pub static mut GOT16: [u32; 16] = [0; 16];
pub static mut GOT17: [u32; 17] = [0; 17];
pub static mut GOT_PAIR_ARG: u32 = 0;
pub static mut ANSWER: u32 = 0;
pub static mut ANSWER_PAIR: (u32, u64) = (0, 0);
pub mod mockhost {
    use super::*;
    pub unsafe fn _export__root___task_return_five(_a: i32, _b: i32, _c: i32, _d: i32, _e: i32) {}
    pub unsafe fn _export__root___task_return_wide(_p: *mut u8) {}
    #[allow(clippy::too_many_arguments)]
    pub unsafe fn verif_call_imp__sixteen(a0: i32, a1: i32, a2: i32, a3: i32, a4: i32, a5: i32, a6: i32, a7: i32, a8: i32, a9: i32, a10: i32, a11: i32, a12: i32, a13: i32, a14: i32, a15: i32) -> i32 {
        unsafe {
            IMPORT_CALLS += 1;
            GOT16 = [a0 as u32, a1 as u32, a2 as u32, a3 as u32, a4 as u32, a5 as u32, a6 as u32, a7 as u32, a8 as u32, a9 as u32, a10 as u32, a11 as u32, a12 as u32, a13 as u32, a14 as u32, a15 as u32];
            ANSWER as i32
        }
    }
    /// beyond the flat limit the core signature is (pointer) -> i32: the host reads the record at its canonical offsets (4*i)
    pub unsafe fn verif_call_imp__seventeen(rec: *mut u8) -> i32 {
        unsafe {
            IMPORT_CALLS += 1;
            let mut i = 0;
            while i < 17 {
                GOT17[i] = core::ptr::read_unaligned(rec.add(4 * i).cast::<u32>());
                i += 1;
            }
            ANSWER as i32
        }
    }
    /// canonical record of mixed(u8, u64, u16, u32, u8, u64, 11 x u32): u8 @0, u64 @8, u16 @16, u32 @20, u8 @24, u64 @32, u32 @40 + 4*i; size 88, alignment 8
    pub unsafe fn verif_call_imp__mixed(rec: *mut u8) -> i32 {
        unsafe {
            IMPORT_CALLS += 1;
            GOT_MIXED = read_mixed(rec);
            GOT_MIXED_ALIGNED = rec as usize % 8 == 0;
            ANSWER as i32
        }
    }
    /// an aggregate result comes back through a return pointer: (i32 arg, retptr) -> (); u32 @0, u64 @8
    pub unsafe fn verif_call_imp__pair(a: i32, ret: *mut u8) {
        unsafe {
            IMPORT_CALLS += 1;
            GOT_PAIR_ARG = a as u32;
            core::ptr::write_unaligned(ret.cast::<u32>(), ANSWER_PAIR.0);
            core::ptr::write_unaligned(ret.add(8).cast::<u64>(), ANSWER_PAIR.1);
        }
    }
}

pub type Mixed = (u8, u64, u16, u32, u8, u64, [u32; 11]);
pub static mut GOT_MIXED: Mixed = (0, 0, 0, 0, 0, 0, [0; 11]);
pub static mut GOT_MIXED_ALIGNED: bool = false;
pub static mut SEEN_MIXED: Mixed = (0, 0, 0, 0, 0, 0, [0; 11]);
/// the host's view of the record, written by hand from CanonicalABI.md (each field at the next multiple of its alignment)
pub unsafe fn read_mixed(rec: *mut u8) -> Mixed {
    unsafe {
        let mut g = [0u32; 11];
        let mut i = 0;
        while i < 11 {
            g[i] = core::ptr::read_unaligned(rec.add(40 + 4 * i).cast::<u32>());
            i += 1;
        }
        (*rec, core::ptr::read_unaligned(rec.add(8).cast::<u64>()), core::ptr::read_unaligned(rec.add(16).cast::<u16>()), core::ptr::read_unaligned(rec.add(20).cast::<u32>()),
         *rec.add(24), core::ptr::read_unaligned(rec.add(32).cast::<u64>()), g)
    }
}
pub unsafe fn write_mixed(rec: *mut u8, m: &Mixed) {
    unsafe {
        *rec = m.0;
        core::ptr::write_unaligned(rec.add(8).cast::<u64>(), m.1);
        core::ptr::write_unaligned(rec.add(16).cast::<u16>(), m.2);
        core::ptr::write_unaligned(rec.add(20).cast::<u32>(), m.3);
        *rec.add(24) = m.4;
        core::ptr::write_unaligned(rec.add(32).cast::<u64>(), m.5);
        let mut i = 0;
        while i < 11 {
            core::ptr::write_unaligned(rec.add(40 + 4 * i).cast::<u32>(), m.6[i]);
            i += 1;
        }
    }
}

// ---- the user's side of the exports
pub struct Impl;
pub static mut CALLS: u32 = 0;
pub static mut SEEN16: [u32; 16] = [0; 16];
pub static mut SEEN17: [u32; 17] = [0; 17];
pub static mut SEEN_PAIR_ARG: u32 = 0;
pub static mut RET: u32 = 0;
pub static mut RET_PAIR: (u32, u64) = (0, 0);
impl Guest for Impl {
    #[allow(clippy::too_many_arguments)]
    fn sixteen(a0: u32, a1: u32, a2: u32, a3: u32, a4: u32, a5: u32, a6: u32, a7: u32, a8: u32, a9: u32, a10: u32, a11: u32, a12: u32, a13: u32, a14: u32, a15: u32) -> u32 {
        unsafe {
            CALLS += 1;
            SEEN16 = [a0, a1, a2, a3, a4, a5, a6, a7, a8, a9, a10, a11, a12, a13, a14, a15];
            RET
        }
    }
    #[allow(clippy::too_many_arguments)]
    fn seventeen(a0: u32, a1: u32, a2: u32, a3: u32, a4: u32, a5: u32, a6: u32, a7: u32, a8: u32, a9: u32, a10: u32, a11: u32, a12: u32, a13: u32, a14: u32, a15: u32, a16: u32) -> u32 {
        unsafe {
            CALLS += 1;
            SEEN17 = [a0, a1, a2, a3, a4, a5, a6, a7, a8, a9, a10, a11, a12, a13, a14, a15, a16];
            RET
        }
    }
    #[allow(clippy::too_many_arguments)]
    fn mixed(a: u8, b: u64, c: u16, d: u32, e: u8, f: u64, g0: u32, g1: u32, g2: u32, g3: u32, g4: u32, g5: u32, g6: u32, g7: u32, g8: u32, g9: u32, g10: u32) -> u32 {
        unsafe {
            CALLS += 1;
            SEEN_MIXED = (a, b, c, d, e, f, [g0, g1, g2, g3, g4, g5, g6, g7, g8, g9, g10]);
            RET
        }
    }
    fn pair(a: u32) -> (u32, u64) {
        unsafe {
            CALLS += 1;
            SEEN_PAIR_ARG = a;
            RET_PAIR
        }
    }
    // the two async exports exist for their task.return signatures only (checked on the generated declarations)
    async fn five(a: u32) -> (u32, u32, u32, u32, u32) {
        (a, a, a, a, a)
    }
    async fn wide(a: u32) -> (u32, u32, u32, u32, u32, u32, u32, u32, u32, u32, u32, u32, u32, u32, u32, u32, u32) {
        (a, a, a, a, a, a, a, a, a, a, a, a, a, a, a, a, a)
    }
}

// ---- ledger for the one heap block involved (the export's caller-allocated parameter record)
pub static mut BLOCK: (usize, usize, usize) = (0, 0, 0);
pub static mut FREES: u32 = 0;
pub static mut BAD_FREE: bool = false;
pub unsafe fn dealloc_stub(ptr: *mut u8, layout: core::alloc::Layout) {
    unsafe {
        FREES += 1;
        if (ptr as usize, layout.size(), layout.align()) != BLOCK {
            BAD_FREE = true;
        }
        BLOCK = (0, 0, 0);
    }
}

#[cfg(kani)]
mod proofs {
    use super::*;
    use core::alloc::Layout;

    fn eq17(x: &[u32; 17], y: &[u32; 17]) -> bool {
        let mut i = 0;
        let mut ok = true;
        while i < 17 {
            if x[i] != y[i] {
                ok = false;
            }
            i += 1;
        }
        ok
    }
    fn eq16(x: &[u32; 16], y: &[u32; 16]) -> bool {
        let mut i = 0;
        let mut ok = true;
        while i < 16 {
            if x[i] != y[i] {
                ok = false;
            }
            i += 1;
        }
        ok
    }

    /// vacuity canary: must FAIL
    #[kani::proof]
    pub fn verif_canary_must_fail() {
        let x: u8 = kani::any();
        assert!(x != 7);
    }

    #[kani::proof]
    #[kani::unwind(19)]
    pub fn c02_import_sixteen_params_are_flat() {
        let a: [u32; 16] = kani::any();
        let r: u32 = kani::any();
        unsafe {
            ANSWER = r;
            let got = imp::sixteen(a[0], a[1], a[2], a[3], a[4], a[5], a[6], a[7], a[8], a[9], a[10], a[11], a[12], a[13], a[14], a[15]);
            kani::assert(IMPORT_CALLS == 1, "exactly one core call");
            kani::assert(eq16(&GOT16, &a), "16 parameters fit the flat limit: passed flat, in order");
            kani::assert(got == r, "a scalar result is returned directly");
        }
    }
    #[kani::proof]
    #[kani::unwind(19)]
    pub fn c02_import_seventeen_params_go_through_a_record() {
        let a: [u32; 17] = kani::any();
        let r: u32 = kani::any();
        unsafe {
            ANSWER = r;
            let got = imp::seventeen(a[0], a[1], a[2], a[3], a[4], a[5], a[6], a[7], a[8], a[9], a[10], a[11], a[12], a[13], a[14], a[15], a[16]);
            kani::assert(IMPORT_CALLS == 1, "exactly one core call");
            kani::assert(eq17(&GOT17, &a), "17 parameters exceed the flat limit: one pointer to a record with field i at offset 4*i");
            kani::assert(got == r, "a scalar result is returned directly");
        }
    }
    #[kani::proof]
    pub fn c02_import_aggregate_result_through_return_area() {
        let a: u32 = kani::any();
        let r: (u32, u64) = kani::any();
        unsafe {
            ANSWER_PAIR = r;
            let got = imp::pair(a);
            kani::assert(IMPORT_CALLS == 1 && GOT_PAIR_ARG == a, "exactly one core call with the flat argument");
            kani::assert(got == r, "a two-field result is read from the return area at its canonical offsets (u32 @0, u64 @8)");
        }
    }
    #[kani::proof]
    #[kani::unwind(19)]
    pub fn c02_export_sixteen_params_are_flat() {
        let a: [u32; 16] = kani::any();
        let r: u32 = kani::any();
        unsafe {
            RET = r;
            let got = _export_sixteen_cabi::<Impl>(a[0] as i32, a[1] as i32, a[2] as i32, a[3] as i32, a[4] as i32, a[5] as i32, a[6] as i32, a[7] as i32, a[8] as i32, a[9] as i32, a[10] as i32, a[11] as i32, a[12] as i32, a[13] as i32, a[14] as i32, a[15] as i32);
            kani::assert(CALLS == 1 && eq16(&SEEN16, &a), "the user function is called once with the 16 flat parameters, in order");
            kani::assert(got as u32 == r, "a scalar result is returned directly");
        }
    }
    #[kani::proof]
    #[kani::unwind(19)]
    #[kani::stub(alloc::alloc::dealloc, dealloc_stub)]
    pub fn c02_export_seventeen_params_record_read_and_freed_once() {
        let a: [u32; 17] = kani::any();
        let r: u32 = kani::any();
        unsafe {
            RET = r;
            // the host allocates the parameter record through cabi_realloc (68 bytes, alignment 4) and fills it canonically
            let rec = alloc::alloc::alloc_zeroed(Layout::from_size_align(68, 4).unwrap());
            kani::assume(!rec.is_null());
            BLOCK = (rec as usize, 68, 4);
            let mut i = 0;
            while i < 17 {
                core::ptr::write_unaligned(rec.add(4 * i).cast::<u32>(), a[i]);
                i += 1;
            }
            let got = _export_seventeen_cabi::<Impl>(rec);
            kani::assert(CALLS == 1 && eq17(&SEEN17, &a), "the user function is called once with the 17 parameters read from the record, in order");
            kani::assert(got as u32 == r, "a scalar result is returned directly");
            kani::assert(FREES == 1 && !BAD_FREE, "the caller-allocated parameter record is freed exactly once, with its own size and alignment");
        }
    }
    #[kani::proof]
    pub fn c02_export_aggregate_result_through_return_area() {
        let a: u32 = kani::any();
        let r: (u32, u64) = kani::any();
        unsafe {
            RET_PAIR = r;
            let ret = _export_pair_cabi::<Impl>(a as i32);
            kani::assert(CALLS == 1 && SEEN_PAIR_ARG == a, "the user function is called once with the flat argument");
            kani::assert(core::ptr::read_unaligned(ret.cast::<u32>()) == r.0 && core::ptr::read_unaligned(ret.add(8).cast::<u64>()) == r.1,
                "a two-field result is written to the return area at its canonical offsets");
        }
    }

    fn any_mixed() -> Mixed {
        (kani::any(), kani::any(), kani::any(), kani::any(), kani::any(), kani::any(), kani::any())
    }
    fn eq_mixed(x: &Mixed, y: &Mixed) -> bool {
        let mut ok = x.0 == y.0 && x.1 == y.1 && x.2 == y.2 && x.3 == y.3 && x.4 == y.4 && x.5 == y.5;
        let mut i = 0;
        while i < 11 {
            if x.6[i] != y.6[i] {
                ok = false;
            }
            i += 1;
        }
        ok
    }
    /// parameters of mixed sizes beyond the flat limit: the record has every field at the next multiple of ITS alignment
    #[kani::proof]
    #[kani::unwind(13)]
    pub fn c02_import_mixed_params_record_has_canonical_padding() {
        let m = any_mixed();
        let r: u32 = kani::any();
        unsafe {
            ANSWER = r;
            let g = m.6;
            let got = imp::mixed(m.0, m.1, m.2, m.3, m.4, m.5, g[0], g[1], g[2], g[3], g[4], g[5], g[6], g[7], g[8], g[9], g[10]);
            kani::assert(IMPORT_CALLS == 1 && got == r, "exactly one core call; the scalar result is returned directly");
            kani::assert(GOT_MIXED_ALIGNED, "the record is aligned for its most strictly aligned field");
            kani::assert(eq_mixed(&GOT_MIXED, &m), "the host reads every parameter at its canonical offset (u8 @0, u64 @8, u16 @16, u32 @20, u8 @24, u64 @32, u32 @40..)");
        }
    }
    #[kani::proof]
    #[kani::unwind(13)]
    #[kani::stub(alloc::alloc::dealloc, dealloc_stub)]
    pub fn c02_export_mixed_params_record_read_at_canonical_offsets_freed_once() {
        let m = any_mixed();
        let r: u32 = kani::any();
        unsafe {
            RET = r;
            let rec = alloc::alloc::alloc_zeroed(Layout::from_size_align(88, 8).unwrap());
            kani::assume(!rec.is_null());
            BLOCK = (rec as usize, 88, 8);
            write_mixed(rec, &m);
            let got = _export_mixed_cabi::<Impl>(rec);
            kani::assert(CALLS == 1 && eq_mixed(&SEEN_MIXED, &m), "the user function is called once with every parameter read from its canonical offset");
            kani::assert(got as u32 == r, "a scalar result is returned directly");
            kani::assert(FREES == 1 && !BAD_FREE, "the caller-allocated parameter record is freed exactly once, with its canonical size (88) and alignment (8)");
        }
    }
}
