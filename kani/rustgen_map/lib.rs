//! C05 / C06 for WIT `map<K, V>` (partial, bounded): `probe.rs` is the output of the REAL Rust generator for
//! kani/rustgen_map/probe.wit, run with `--map-type crate::VecMap`.  The generator's default map type is `BTreeMap`, whose
//! node machinery does not get through CBMC; `--map-type` is the generator's own option for substituting any type that
//! implements the runtime's `WitMap` trait, and `VecMap` below is the simplest such type (a vector of pairs in insertion
//! order).  The generated MapLift / MapLower / GuestDeallocateMap code is the same text whatever the map type is.
#![allow(unused, static_mut_refs, non_snake_case)]
extern crate alloc;
use alloc::string::String;
use alloc::vec::Vec;

/// a map as a vector of (key, value) pairs in insertion order (duplicate keys are not merged: the harness never sends any)
pub struct VecMap<K, V>(pub Vec<(K, V)>);
impl<K, V> wit_bindgen::rt::WitMap<K, V> for VecMap<K, V> {
    fn wit_map_new(capacity: usize) -> Self {
        VecMap(Vec::with_capacity(capacity))
    }
    fn wit_map_push(&mut self, key: K, value: V) {
        self.0.push((key, value));
    }
    fn wit_map_len(&self) -> usize {
        self.0.len()
    }
}
impl<K, V> IntoIterator for VecMap<K, V> {
    type Item = (K, V);
    type IntoIter = alloc::vec::IntoIter<(K, V)>;
    fn into_iter(self) -> Self::IntoIter {
        self.0.into_iter()
    }
}
pub struct RefIter<'a, K, V>(core::slice::Iter<'a, (K, V)>);
impl<'a, K, V> Iterator for RefIter<'a, K, V> {
    type Item = (&'a K, &'a V);
    fn next(&mut self) -> Option<Self::Item> {
        self.0.next().map(|(k, v)| (k, v))
    }
}
impl<'a, K, V> IntoIterator for &'a VecMap<K, V> {
    type Item = (&'a K, &'a V);
    type IntoIter = RefIter<'a, K, V>;
    fn into_iter(self) -> Self::IntoIter {
        RefIter(self.0.iter())
    }
}

include!("probe.rs");
pub const P: usize = core::mem::size_of::<usize>();

// ------------------------------------------------------------------------------------------------ allocation ledger
// seven slots, handled without loops (loops in allocator stubs multiply CBMC's unwinding work)
pub static mut L0: (usize, usize, usize) = (0, 0, 0); // (ptr, size, align); ptr 0 = free slot
pub static mut L1: (usize, usize, usize) = (0, 0, 0);
pub static mut L2: (usize, usize, usize) = (0, 0, 0);
pub static mut L3: (usize, usize, usize) = (0, 0, 0);
pub static mut L4: (usize, usize, usize) = (0, 0, 0);
pub static mut L5: (usize, usize, usize) = (0, 0, 0);
pub static mut L6: (usize, usize, usize) = (0, 0, 0);
pub static mut BAD_FREE: bool = false; // freed something not live, or with another layout
pub static mut LEDGER_FULL: bool = false;
pub static mut ALLOCS: u32 = 0;
pub static mut FREES: u32 = 0;
fn ledger_add(p: usize, size: usize, align: usize) {
    unsafe {
        let e = (p, size, align);
        if L0.0 == 0 {
            L0 = e;
        } else if L1.0 == 0 {
            L1 = e;
        } else if L2.0 == 0 {
            L2 = e;
        } else if L3.0 == 0 {
            L3 = e;
        } else if L4.0 == 0 {
            L4 = e;
        } else if L5.0 == 0 {
            L5 = e;
        } else if L6.0 == 0 {
            L6 = e;
        } else {
            LEDGER_FULL = true;
        }
    }
}
fn ledger_remove(p: usize, size: usize, align: usize) {
    unsafe {
        let e = (p, size, align);
        if L0 == e {
            L0 = (0, 0, 0);
        } else if L1 == e {
            L1 = (0, 0, 0);
        } else if L2 == e {
            L2 = (0, 0, 0);
        } else if L3 == e {
            L3 = (0, 0, 0);
        } else if L4 == e {
            L4 = (0, 0, 0);
        } else if L5 == e {
            L5 = (0, 0, 0);
        } else if L6 == e {
            L6 = (0, 0, 0);
        } else {
            BAD_FREE = true;
        }
    }
}
pub fn is_live(p: usize) -> bool {
    unsafe { p != 0 && (L0.0 == p || L1.0 == p || L2.0 == p || L3.0 == p || L4.0 == p || L5.0 == p || L6.0 == p) }
}
pub fn live_blocks() -> usize {
    unsafe { (L0.0 != 0) as usize + (L1.0 != 0) as usize + (L2.0 != 0) as usize + (L3.0 != 0) as usize + (L4.0 != 0) as usize + (L5.0 != 0) as usize + (L6.0 != 0) as usize }
}
// (std's `Global` goes through the private `dealloc_nonnull` / `realloc_nonnull`, which are stubbed as well.)
// The stubs replace alloc / dealloc / realloc everywhere (Vec, String, Box, the generated code).  A stub cannot call the
// function it replaces, so memory is obtained from `alloc_zeroed` (not stubbed: Kani's allocator model) and is never
// handed back to the model: a "free" only updates the ledger.  Consequences: double frees, frees with a foreign layout and
// leaks are observed by the ledger; reads/writes outside a block by CBMC's pointer checks; a read AFTER free is not.
pub unsafe fn alloc_stub(layout: core::alloc::Layout) -> *mut u8 {
    unsafe {
        let p = alloc::alloc::alloc_zeroed(layout);
        ALLOCS += 1;
        if !p.is_null() {
            ledger_add(p as usize, layout.size(), layout.align());
        }
        p
    }
}
pub unsafe fn dealloc_stub(ptr: *mut u8, layout: core::alloc::Layout) {
    unsafe {
        FREES += 1;
        ledger_remove(ptr as usize, layout.size(), layout.align());
    }
}
pub unsafe fn dealloc_nonnull_stub(ptr: core::ptr::NonNull<u8>, layout: core::alloc::Layout) {
    unsafe { dealloc_stub(ptr.as_ptr(), layout) }
}
pub unsafe fn realloc_nonnull_stub(ptr: core::ptr::NonNull<u8>, layout: core::alloc::Layout, new_size: usize) -> *mut u8 {
    unsafe { realloc_stub(ptr.as_ptr(), layout, new_size) }
}
pub unsafe fn realloc_stub(ptr: *mut u8, layout: core::alloc::Layout, new_size: usize) -> *mut u8 {
    unsafe {
        ledger_remove(ptr as usize, layout.size(), layout.align());
        let p = alloc::alloc::alloc_zeroed(core::alloc::Layout::from_size_align_unchecked(new_size, layout.align()));
        if !p.is_null() {
            let n = if layout.size() < new_size { layout.size() } else { new_size };
            core::ptr::copy_nonoverlapping(ptr, p, n);
            ledger_add(p as usize, new_size, layout.align());
        }
        p
    }
}

// ------------------------------------------------------------------------------------------------ mock host (imports, rule R1)
pub static mut SINK_CALLS: u32 = 0;
pub static mut SINK_ENTRIES_LIVE: bool = false;
pub static mut SINK_LEN: usize = 0;
pub static mut SINK_ENTRY0: (usize, usize, u32) = (0, 0, 0);
pub static mut SINK_FIRST_BYTE: u8 = 0;
pub mod mockhost {
    use super::*;
    /// nested-map(option<map<string, u32>>): flat (discriminant, pointer to (ptr, len, u32) entries, length)
    pub unsafe fn verif_mp_sinks__nested_map(disc: i32, entries: *mut u8, len: usize) -> i32 {
        unsafe {
            SINK_CALLS += 1;
            SINK_LEN = len;
            if disc == 1 && len > 0 {
                // the entries buffer is scratch memory of the lowering: it must still be allocated while the callee runs
                SINK_ENTRIES_LIVE = is_live(entries as usize);
                SINK_ENTRY0 = (entries.cast::<usize>().read(), entries.add(P).cast::<usize>().read(), entries.add(2 * P).cast::<u32>().read());
                if SINK_ENTRY0.1 > 0 {
                    SINK_FIRST_BYTE = *(SINK_ENTRY0.0 as *const u8);
                }
            }
            disc
        }
    }
}

// ------------------------------------------------------------------------------------------------ the user's functions
pub struct Impl;
pub static mut CALLS: u32 = 0;
pub static mut SEEN_MAP: Option<VecMap<String, u32>> = None;
pub static mut RET_MAP: Option<VecMap<String, u32>> = None;
impl Guest for Impl {
    fn echo_map(a: VecMap<String, u32>) -> VecMap<String, u32> {
        unsafe {
            CALLS += 1;
            SEEN_MAP = Some(a);
            RET_MAP.take().unwrap()
        }
    }
}

#[cfg(kani)]
mod proofs {
    use super::*;
    use core::alloc::Layout;
    #[kani::proof]
    fn verif_canary_must_fail() {
        let x: u8 = kani::any();
        assert!(x != 7);
    }
    unsafe fn rd<T: Copy>(p: *mut u8, off: usize) -> T {
        unsafe { core::ptr::read_unaligned(p.add(off).cast::<T>()) }
    }
    fn ascii1() -> u8 {
        let b: u8 = kani::any();
        kani::assume(b < 0x80);
        b
    }
    fn string_of(b: u8, n: usize) -> String {
        let mut v: Vec<u8> = Vec::new();
        if n >= 1 { v.push(b); }
        unsafe { String::from_utf8_unchecked(v) }
    }
    fn from_utf8_stub(v: Vec<u8>) -> Result<String, alloc::string::FromUtf8Error> {
        Ok(unsafe { String::from_utf8_unchecked(v) })
    }
    macro_rules! ledger_proof {
        ($(#[$m:meta])* fn $name:ident() $body:block) => { ledger_proof! { unwind 4, $(#[$m])* fn $name() $body } };
        (unwind $u:literal, $(#[$m:meta])* fn $name:ident() $body:block) => {
            #[kani::proof]
            #[kani::unwind($u)]
            #[kani::stub(alloc::alloc::alloc, alloc_stub)]
            #[kani::stub(alloc::alloc::dealloc, dealloc_stub)]
            #[kani::stub(alloc::alloc::realloc, realloc_stub)]
            #[kani::stub(alloc::alloc::dealloc_nonnull, dealloc_nonnull_stub)]
            #[kani::stub(alloc::alloc::realloc_nonnull, realloc_nonnull_stub)]
            #[kani::stub(alloc::string::String::from_utf8, from_utf8_stub)]
            $(#[$m])*
            pub fn $name() $body
        };
    }
    const ENTRY: usize = 3 * P; // canonical map entry (string key, u32 value): key pointer @0, key length @P, value @2P; size 3P

    /// map<string, u32> through an export; the numbers of entries sent (n) and returned (m) are fixed per harness, keys of symbolic
    /// length <= 1 and symbolic content, values symbolic
    fn body_map(values: bool, memory: bool, n: usize, m: usize) {
        let (klen, rklen): (usize, usize) = (kani::any(), kani::any());
        kani::assume(klen <= 1 && rklen <= 1);
        let (kb, rkb) = (ascii1(), ascii1());
        let (v, rv): (u32, u32) = (kani::any(), kani::any());
        unsafe {
            let mut r: VecMap<String, u32> = VecMap(Vec::new());
            let mut j = 0;
            while j < m {
                r.0.push((string_of(rkb, rklen), rv.wrapping_add(j as u32)));
                j += 1;
            }
            RET_MAP = Some(r);
            let entries: *mut u8 = if n == 0 {
                P as *mut u8
            } else {
                let l = alloc_stub(Layout::from_size_align(ENTRY * n, P).unwrap());
                kani::assume(!l.is_null());
                let mut i = 0;
                while i < n {
                    let k: *mut u8 = if klen == 0 { 1 as *mut u8 } else {
                        let k = alloc_stub(Layout::from_size_align(1, 1).unwrap());
                        kani::assume(!k.is_null());
                        *k = kb;
                        k
                    };
                    l.add(ENTRY * i).cast::<*mut u8>().write(k);
                    l.add(ENTRY * i + P).cast::<usize>().write(klen);
                    l.add(ENTRY * i + 2 * P).cast::<u32>().write(v.wrapping_add(i as u32));
                    i += 1;
                }
                l
            };
            let ret = _export_echo_map_cabi::<Impl>(entries, n);
            let seen = SEEN_MAP.take().unwrap();
            if values {
                kani::assert(CALLS == 1 && seen.0.len() == n, "the map the host sent arrives with its number of entries");
                let mut i = 0;
                while i < n {
                    kani::assert(seen.0[i].0.len() == klen && (klen < 1 || seen.0[i].0.as_bytes()[0] == kb) && seen.0[i].1 == v.wrapping_add(i as u32), "each entry the host sent arrives unchanged, in order");
                    i += 1;
                }
            }
            drop(seen);
            let (rp, rl): (*mut u8, usize) = (rd(ret, 0), rd(ret, P));
            if values {
                kani::assert(rl == m, "the returned map has the returned number of entries");
                let mut j = 0;
                while j < m {
                    let (kp, kl, val): (*mut u8, usize, u32) = (rd(rp, ENTRY * j), rd(rp, ENTRY * j + P), rd(rp, ENTRY * j + 2 * P));
                    kani::assert(kl == rklen && (rklen < 1 || *kp == rkb) && val == rv.wrapping_add(j as u32), "each returned entry sits at the canonical stride and reaches the host unchanged");
                    j += 1;
                }
            }
            __post_return_echo_map::<Impl>(ret);
            kani::assert(!LEDGER_FULL, "HARNESS-LIMIT: allocation ledger full");
            if memory { kani::assert(!BAD_FREE, "every block is freed at most once, with the size and alignment it was allocated with"); }
            if memory { kani::assert(live_blocks() == 0, "nothing is left allocated after post-return"); }
        }
        kani::cover!(klen == 1 && rklen == 1);
        kani::cover!(klen == 0 && rklen == 0);
    }
    ledger_proof! { fn c05_map_result_len0() { body_map(true, false, 0, 0); } }
    ledger_proof! { fn c05_map_result_len1() { body_map(true, false, 0, 1); } }
    ledger_proof! { fn c05_map_result_len2() { body_map(true, false, 0, 2); } }
    ledger_proof! { fn c05_map_param_len1() { body_map(true, false, 1, 0); } }
    ledger_proof! { fn c05_map_param_len2() { body_map(true, false, 2, 0); } }
    ledger_proof! { fn c06_map_result_len0() { body_map(false, true, 0, 0); } }
    ledger_proof! { fn c06_map_result_len1() { body_map(false, true, 0, 1); } }
    ledger_proof! { fn c06_map_result_len2() { body_map(false, true, 0, 2); } }
    ledger_proof! { fn c06_map_param_len1() { body_map(false, true, 1, 0); } }
    ledger_proof! { fn c06_map_param_len2() { body_map(false, true, 2, 0); } }

    /// import with option<map<string, u32>>: the entries buffer the lowering allocates is scratch memory - it must still be allocated
    /// while the callee runs, be freed exactly once afterwards, and the caller's map must be left as it was (it is borrowed)
    fn body_import_map(n: usize) {
        let some: bool = kani::any();
        let kb = ascii1();
        let v: u32 = kani::any();
        unsafe {
            let mut m: VecMap<String, u32> = VecMap(Vec::new());
            let mut i = 0;
            while i < n {
                m.0.push((string_of(kb, 1), v.wrapping_add(i as u32)));
                i += 1;
            }
            let before = live_blocks();
            let r = if some { verif::mp::sinks::nested_map(Some(&m)) } else { verif::mp::sinks::nested_map(None) };
            kani::assert(SINK_CALLS == 1 && r == some as u32, "exactly one core call");
            if some {
                kani::assert(SINK_LEN == n, "the callee sees the number of entries");
                if n > 0 {
                    kani::assert(SINK_ENTRIES_LIVE, "the entries buffer is still allocated while the callee runs");
                    kani::assert(SINK_ENTRY0.1 == 1 && SINK_FIRST_BYTE == kb && SINK_ENTRY0.2 == v, "the callee reads the first entry unchanged");
                    kani::assert(SINK_ENTRY0.0 == m.0[0].0.as_ptr() as usize, "the key is passed by reference to the caller's own buffer (no copy)");
                }
            }
            kani::assert(!BAD_FREE && live_blocks() == before, "the scratch buffer is freed exactly once after the call and nothing of the caller's is freed");
            kani::assert(m.0.len() == n && (n == 0 || (m.0[0].0.as_bytes()[0] == kb && m.0[0].1 == v)), "the borrowed map is left untouched");
            drop(m);
            kani::assert(!LEDGER_FULL, "HARNESS-LIMIT: allocation ledger full");
            kani::assert(!BAD_FREE && live_blocks() == 0, "nothing is left allocated");
        }
        kani::cover!(some);
        kani::cover!(!some);
    }
    ledger_proof! { fn c06_import_nested_map_scratch_len0() { body_import_map(0); } }
    // `Cleanup::drop` poisons the scratch buffer byte by byte before freeing it: 3P bytes per entry, so the unwinding bound follows the length
    ledger_proof! { unwind 26, fn c06_import_nested_map_scratch_len1() { body_import_map(1); } }
    ledger_proof! { unwind 50, fn c06_import_nested_map_scratch_len2() { body_import_map(2); } }
}
