//! C07 (partial): `probe.rs` is the output of the REAL Rust generator for kani/rustgen_res/probe.wit (an imported resource
//! `thing` with functions taking it owned / borrowed / returning it, and an exported resource `counter`), built from
//! /repo on every run.  The only edit is rule R1: the generator's native stand-ins for wasm imports
//! (`{ unreachable!() }`) call the mock host below, which keeps a ledger of every handle that crosses the boundary.
#![allow(unused, static_mut_refs, non_snake_case)]
include!("probe.rs");

use exports::verif::res::exp::{Counter, CounterBorrow, Guest, GuestCounter};
use verif::res::imp::{self, Thing};

pub const NLOG: usize = 6;
#[derive(Copy, Clone, PartialEq)]
pub enum Ev {
    None,
    DropThing(u32),        // [resource-drop]thing
    DropCounter(u32),      // [export] [resource-drop]counter
    New(u32),              // [constructor]thing(v)
    Get(u32),              // [method]thing.get(handle)
    Merge(u32, u32),       // [static]thing.merge(own a, borrow b)
    Consume(u32),          // consume(own t)
    Make,                  // make() -> own
    Peek(u32),             // peek(borrow t)
    ConsumeAll(u32, u32, usize), // consume-all(list of own): first two handles read from the list buffer, length
    ConsumeHolder(u32, u32), // consume-holder(record { own t, n })
    MaybeMake,             // maybe-make() -> option<own>
    TryMake,               // try-make() -> result<own, u32>
    PeekPair(u32, u32),    // peek-pair(tuple<borrow, u32>)
    ResNew(usize),         // [resource-new]counter(rep)
    ResRep(u32),           // [resource-rep]counter(handle)
}
pub static mut LOG: [Ev; NLOG] = [Ev::None; NLOG];
pub static mut NLOGGED: usize = 0;
pub static mut ANSWER: u32 = 0; // what the host returns from the next value-returning import
pub static mut ANSWER_CASE: u8 = 0; // discriminant the host stores for option / result answers
pub static mut REP_OF: (u32, usize) = (0, 0); // handle -> representation pointer, as recorded by [resource-new]
fn log(e: Ev) {
    unsafe {
        assert!(NLOGGED < NLOG, "mock host log full");
        LOG[NLOGGED] = e;
        NLOGGED += 1;
    }
}
pub fn count(f: impl Fn(&Ev) -> bool) -> usize {
    let mut n = 0;
    let mut i = 0;
    unsafe {
        while i < NLOGGED {
            if f(&LOG[i]) {
                n += 1;
            }
            i += 1;
        }
    }
    n
}
pub fn logged() -> usize {
    unsafe { NLOGGED }
}

pub mod mockhost {
    use super::*;
    pub unsafe fn verif_res_imp___resource_drop_thing(h: i32) { log(Ev::DropThing(h as u32)) }
    pub unsafe fn verif_res_imp___constructor_thing(v: i32) -> i32 { log(Ev::New(v as u32)); unsafe { ANSWER as i32 } }
    pub unsafe fn verif_res_imp___method_thing_get(h: i32) -> i32 { log(Ev::Get(h as u32)); unsafe { ANSWER as i32 } }
    pub unsafe fn verif_res_imp___static_thing_merge(a: i32, b: i32) -> i32 { log(Ev::Merge(a as u32, b as u32)); unsafe { ANSWER as i32 } }
    pub unsafe fn verif_res_imp__consume(h: i32) { log(Ev::Consume(h as u32)) }
    pub unsafe fn verif_res_imp__make() -> i32 { log(Ev::Make); unsafe { ANSWER as i32 } }
    pub unsafe fn verif_res_imp__peek(h: i32) -> i32 { log(Ev::Peek(h as u32)); unsafe { ANSWER as i32 } }
    /// list<own<thing>>: (pointer to 4-byte handle slots, length); lifting the list TRANSFERS every handle in it to the host
    pub unsafe fn verif_res_imp__consume_all(p: *mut u8, len: usize) {
        unsafe {
            let h0 = if len >= 1 { core::ptr::read_unaligned(p.cast::<u32>()) } else { 0 };
            let h1 = if len >= 2 { core::ptr::read_unaligned(p.add(4).cast::<u32>()) } else { 0 };
            log(Ev::ConsumeAll(h0, h1, len));
        }
    }
    pub unsafe fn verif_res_imp__consume_holder(h: i32, n: i32) { log(Ev::ConsumeHolder(h as u32, n as u32)) }
    /// option<own<thing>> / result<own<thing>, u32> through a return pointer: discriminant @0, payload @4
    pub unsafe fn verif_res_imp__maybe_make(ret: *mut u8) {
        log(Ev::MaybeMake);
        unsafe {
            *ret = ANSWER_CASE;
            ret.add(4).cast::<u32>().write(ANSWER);
        }
    }
    pub unsafe fn verif_res_imp__try_make(ret: *mut u8) {
        log(Ev::TryMake);
        unsafe {
            *ret = ANSWER_CASE;
            ret.add(4).cast::<u32>().write(ANSWER);
        }
    }
    pub unsafe fn verif_res_imp__peek_pair(h: i32, n: i32) -> i32 { log(Ev::PeekPair(h as u32, n as u32)); unsafe { ANSWER as i32 } }
    pub unsafe fn _export_verif_res_exp___resource_drop_counter(h: i32) { log(Ev::DropCounter(h as u32)) }
    pub unsafe fn _export_verif_res_exp___resource_new_counter(rep: *mut u8) -> i32 {
        log(Ev::ResNew(rep as usize));
        unsafe {
            REP_OF = (ANSWER, rep as usize);
            ANSWER as i32
        }
    }
    pub unsafe fn _export_verif_res_exp___resource_rep_counter(h: i32) -> *mut u8 {
        log(Ev::ResRep(h as u32));
        unsafe {
            assert!(REP_OF.0 == h as u32, "resource-rep of a handle the host never created");
            REP_OF.1 as *mut u8
        }
    }
}

// ---- the user's side of the exported resource
pub static mut COUNTER_DROPS: u32 = 0;
pub static mut LOOKED: u32 = 0;
pub static mut TAKEN_HANDLE: u32 = 0;
pub static mut LOGGED_WHEN_USER_RAN: usize = 0;
pub static mut KEEP: bool = false; // whether `adopt` keeps the handle it was given
pub static mut KEPT: Option<Thing> = None;
pub static mut OPT_SEEN: (bool, u32) = (false, 0);
pub struct MyCounter {
    pub v: u32,
}
impl Drop for MyCounter {
    fn drop(&mut self) {
        unsafe { COUNTER_DROPS += 1 };
    }
}
impl GuestCounter for MyCounter {
    fn new(v: u32) -> Self {
        MyCounter { v }
    }
    fn get(&self) -> u32 {
        self.v
    }
}
pub struct Impl;
impl Guest for Impl {
    type Counter = MyCounter;
    fn take(c: Counter) -> u32 {
        unsafe { TAKEN_HANDLE = c.handle() };
        // the owned handle dies with `c` here
        7
    }
    fn look(c: CounterBorrow<'_>) -> u32 {
        let v = c.get::<MyCounter>().v;
        unsafe { LOOKED = v };
        v
    }
    fn give(v: u32) -> Counter {
        Counter::new(MyCounter { v })
    }
    fn use_thing(t: &Thing) -> u32 {
        unsafe {
            TAKEN_HANDLE = t.handle();
            LOGGED_WHEN_USER_RAN = logged();
        }
        9
    }
    fn adopt(t: Thing) -> u32 {
        unsafe {
            TAKEN_HANDLE = t.handle();
            if KEEP {
                KEPT = Some(t); // ownership was given: the guest may keep the handle beyond the call
            }
        }
        11
    }
    fn take_opt(c: Option<Counter>) -> u32 {
        unsafe {
            OPT_SEEN = match &c {
                Some(c) => (true, c.handle()),
                None => (false, 0),
            };
        }
        13
    }
}

// the second exported interface reaches `counter` through an alias; its functions only record that they ran (the representation pointer
// arrives as a core i32, which is the whole pointer on wasm32 only, so it is not dereferenced here)
pub static mut LOOKED_AGAIN: u32 = 0;
impl exports::verif::res::exp2::Guest for Impl {
    fn look_again(_c: CounterBorrow<'_>) -> u32 {
        unsafe { LOOKED_AGAIN += 1 };
        21
    }
    fn maybe_look(c: Option<CounterBorrow<'_>>) -> u32 {
        unsafe { LOOKED_AGAIN += 1 };
        c.is_some() as u32
    }
}

/// a counting stand-in for "some resource type" to drive the generated `_rt::Resource<T>` item directly
pub struct Probe;
pub static mut PROBE_DROPS: u32 = 0;
pub static mut PROBE_LAST: u32 = 0;
unsafe impl _rt::WasmResource for Probe {
    unsafe fn drop(handle: u32) {
        unsafe {
            PROBE_DROPS += 1;
            PROBE_LAST = handle;
        }
    }
}

#[cfg(kani)]
mod proofs {
    use super::*;

    fn any_handle() -> u32 {
        let h: u32 = kani::any();
        kani::assume(h != 0 && h != u32::MAX);
        h
    }

    /// vacuity canary: must FAIL
    #[kani::proof]
    pub fn verif_canary_must_fail() {
        let x: u8 = kani::any();
        assert!(x != 7);
    }

    // ---- the generated `Resource<T>` runtime item
    #[kani::proof]
    pub fn c07_resource_item_owned_handle_dropped_once() {
        let h = any_handle();
        unsafe {
            {
                let r = _rt::Resource::<Probe>::from_handle(h);
                kani::assert(_rt::Resource::handle(&r) == h && _rt::Resource::handle(&r) == h, "handle() is a pure read");
                kani::assert(PROBE_DROPS == 0, "nothing is dropped while the value lives");
            }
            kani::assert(PROBE_DROPS == 1 && PROBE_LAST == h, "an owned handle is dropped exactly once, when its Rust value is dropped");
        }
    }
    #[kani::proof]
    pub fn c07_resource_item_taken_handle_never_dropped() {
        let h = any_handle();
        unsafe {
            {
                let r = _rt::Resource::<Probe>::from_handle(h);
                kani::assert(_rt::Resource::take_handle(&r) == h, "take_handle gives the handle away");
                kani::assert(_rt::Resource::take_handle(&r) == u32::MAX, "a handle can be given away only once");
                kani::assert(_rt::Resource::handle(&r) == u32::MAX, "no handle is left to use after giving it away");
            }
            kani::assert(PROBE_DROPS == 0, "a handle that was given away is not dropped by the guest");
        }
    }

    // ---- imported resource: glue generated for owned / borrowed parameters and owned results
    #[kani::proof]
    pub fn c07_import_owned_argument_transferred_exactly_once() {
        let h = any_handle();
        unsafe {
            imp::consume(Thing::from_handle(h));
        }
        kani::assert(logged() == 1 && count(|e| *e == Ev::Consume(h)) == 1, "the owned handle is passed to the import exactly once and not dropped by the guest");
    }
    #[kani::proof]
    pub fn c07_import_borrowed_argument_never_dropped_by_the_call() {
        let h = any_handle();
        unsafe {
            let t = Thing::from_handle(h);
            let _ = imp::peek(&t);
            kani::assert(logged() == 1 && count(|e| *e == Ev::Peek(h)) == 1, "a borrowed handle is passed, not dropped");
            let _ = t.get();
            kani::assert(logged() == 2 && count(|e| *e == Ev::Get(h)) == 1, "a method call borrows self");
            kani::assert(t.handle() == h, "the caller still owns the handle");
            drop(t);
            kani::assert(logged() == 3 && count(|e| *e == Ev::DropThing(h)) == 1, "the owner drops it exactly once");
        }
    }
    #[kani::proof]
    pub fn c07_import_owned_result_dropped_exactly_once() {
        let h = any_handle();
        let via_ctor: bool = kani::any();
        unsafe {
            ANSWER = h;
            let t = if via_ctor { Thing::new(5) } else { imp::make() };
            kani::assert(t.handle() == h && logged() == 1, "the returned handle is owned by the new value");
            drop(t);
            kani::assert(logged() == 2 && count(|e| *e == Ev::DropThing(h)) == 1, "an owned handle received from an import is dropped exactly once");
        }
    }
    #[kani::proof]
    pub fn c07_import_mixed_owned_and_borrowed_arguments() {
        let (a, b, r) = (any_handle(), any_handle(), any_handle());
        kani::assume(a != b && r != a && r != b);
        unsafe {
            ANSWER = r;
            let tb = Thing::from_handle(b);
            let tr = Thing::merge(Thing::from_handle(a), &tb);
            kani::assert(logged() == 1 && count(|e| *e == Ev::Merge(a, b)) == 1, "owned a transferred, borrowed b passed, neither dropped");
            kani::assert(tb.handle() == b && tr.handle() == r, "the borrowed argument and the result are owned by their values");
            drop(tr);
            drop(tb);
            kani::assert(logged() == 3 && count(|e| *e == Ev::DropThing(r)) == 1 && count(|e| *e == Ev::DropThing(b)) == 1 && count(|e| *e == Ev::DropThing(a)) == 0,
                "the transferred handle is never dropped by the guest; the others exactly once");
        }
    }

    // ---- exported resource
    #[kani::proof]
    pub fn c07_export_owned_parameter_dropped_once_when_user_drops_it() {
        let h = any_handle();
        unsafe {
            let r = exports::verif::res::exp::_export_take_cabi::<Impl>(h as i32);
            kani::assert(r == 7 && TAKEN_HANDLE == h, "the user receives the owned handle the host passed");
            kani::assert(logged() == 1 && count(|e| *e == Ev::DropCounter(h)) == 1, "an owned handle received by an export is dropped exactly once, when its Rust value is dropped");
        }
    }
    #[kani::proof]
    pub fn c07_export_result_handle_transferred_not_dropped() {
        let h = any_handle();
        let v: u32 = kani::any();
        let via_ctor: bool = kani::any();
        unsafe {
            ANSWER = h;
            let r = if via_ctor {
                exports::verif::res::exp::_export_constructor_counter_cabi::<MyCounter>(v as i32)
            } else {
                exports::verif::res::exp::_export_give_cabi::<Impl>(v as i32)
            };
            kani::assert(r as u32 == h, "the export returns the handle the host created for the new resource");
            kani::assert(logged() == 1 && count(|e| matches!(e, Ev::ResNew(_))) == 1, "exactly one resource-new, and the returned handle is not dropped by the guest");
            kani::assert(COUNTER_DROPS == 0, "the Rust value lives on behind the handle");
            // the same Rust value is reached through every handle to it: through the owned handle (resource-rep) and
            // through a borrow (the representation pointer itself).  The two trampolines that receive a borrow as a core
            // i32 (`_export_look_cabi`, `_export_method_counter_get_cabi`) truncate the pointer to 32 bits, which is the
            // identity on wasm32 only, so on this 64-bit verification target the generated `CounterBorrow` / `Counter`
            // accessors are driven directly.
            let rep = REP_OF.1 as *mut u8;
            let before = logged();
            let owner = Counter::from_handle(h);
            kani::assert(owner.get::<MyCounter>().v == v, "the exported resource's Rust value is reached through an owned handle");
            kani::assert(logged() == before + 1 && count(|e| *e == Ev::ResRep(h)) == 1, "by asking the host for the handle's representation");
            let _ = owner.take_handle();
            drop(owner);
            let b = CounterBorrow::lift(rep);
            kani::assert(b.get::<MyCounter>().v == v && COUNTER_DROPS == 0, "a borrowed exported resource is read through its representation, never dropped");
            // the host drops the resource: the destructor runs exactly once
            Counter::dtor::<MyCounter>(rep);
            kani::assert(COUNTER_DROPS == 1, "the exported resource's Rust value is destroyed exactly once, when the host drops it");
            kani::assert(count(|e| matches!(e, Ev::DropCounter(_))) == 0, "the guest never drops the handle it gave away");
        }
    }

    /// `into_inner` moves the Rust value out of the exported resource: the value must then be destroyed exactly once, by
    /// its new owner, and NOT a second time when the (now empty) resource is dropped by the host.
    #[kani::proof]
    pub fn c07_export_into_inner_moves_value_out_destroyed_once() {
        let h = any_handle();
        let v: u32 = kani::any();
        unsafe {
            ANSWER = h;
            let r = exports::verif::res::exp::_export_give_cabi::<Impl>(v as i32);
            kani::assert(r as u32 == h && COUNTER_DROPS == 0, "a new exported resource");
            let rep = REP_OF.1 as *mut u8;
            // the guest gets its own resource back as an owned handle and takes the value out of it
            let owner = Counter::from_handle(h);
            let value: MyCounter = owner.into_inner::<MyCounter>();
            kani::assert(value.v == v, "into_inner hands out the Rust value behind the handle");
            kani::assert(count(|e| *e == Ev::DropCounter(h)) == 1, "consuming the owned handle drops it exactly once");
            kani::assert(COUNTER_DROPS == 0, "the value is alive in its new owner");
            // the host reacts to the handle drop by calling the destructor export
            Counter::dtor::<MyCounter>(rep);
            kani::assert(COUNTER_DROPS == 0, "the destructor must not destroy a value that was moved out");
            drop(value);
            kani::assert(COUNTER_DROPS == 1, "the Rust value is destroyed exactly once");
        }
    }

    /// a LIST of owned handles passed to an import: every handle in it is transferred (the host lifts them out of the buffer),
    /// so none of them may be dropped by the guest afterwards
    #[kani::proof]
    #[kani::unwind(10)]
    pub fn c07_import_list_of_owned_handles_transferred_not_dropped() {
        let (a, b) = (any_handle(), any_handle());
        kani::assume(a != b);
        let two: bool = kani::any();
        unsafe {
            let mut v: Vec<Thing> = Vec::new();
            v.push(Thing::from_handle(a));
            if two {
                v.push(Thing::from_handle(b));
            }
            imp::consume_all(v);
            kani::assert(count(|e| *e == Ev::ConsumeAll(a, if two { b } else { 0 }, if two { 2 } else { 1 })) == 1, "the handles are passed in the list buffer, in order, exactly once");
            kani::assert(count(|e| matches!(e, Ev::DropThing(_))) == 0, "handles given away inside a list are not dropped by the guest");
            kani::assert(logged() == 1, "nothing else crosses the boundary");
        }
        kani::cover!(two);
    }

    // ---- handles nested in aggregates (imports)
    #[kani::proof]
    pub fn c07_import_owned_handle_in_record_transferred_not_dropped() {
        let h = any_handle();
        let n: u32 = kani::any();
        unsafe {
            imp::consume_holder(imp::Holder { t: Thing::from_handle(h), n });
        }
        kani::assert(logged() == 1 && count(|e| *e == Ev::ConsumeHolder(h, n)) == 1, "an owned handle inside a record is passed exactly once and not dropped by the guest");
    }
    #[kani::proof]
    pub fn c07_import_owned_handle_in_option_and_result_dropped_once() {
        let h = any_handle();
        let case: u8 = kani::any();
        kani::assume(case < 2);
        let via_result: bool = kani::any();
        unsafe {
            ANSWER = h;
            ANSWER_CASE = case;
            if via_result {
                match imp::try_make() {
                    Ok(t) => {
                        kani::assert(case == 0 && t.handle() == h && logged() == 1, "ok(own) is owned by the new value");
                        drop(t);
                        kani::assert(logged() == 2 && count(|e| *e == Ev::DropThing(h)) == 1, "dropped exactly once with its value");
                    }
                    Err(e) => kani::assert(case == 1 && e == h && logged() == 1, "err(u32) is a number: no handle is created or dropped"),
                }
            } else {
                match imp::maybe_make() {
                    Some(t) => {
                        kani::assert(case == 1 && t.handle() == h && logged() == 1, "some(own) is owned by the new value");
                        drop(t);
                        kani::assert(logged() == 2 && count(|e| *e == Ev::DropThing(h)) == 1, "dropped exactly once with its value");
                    }
                    None => kani::assert(case == 0 && logged() == 1, "none: no handle is created or dropped"),
                }
            }
        }
    }
    #[kani::proof]
    pub fn c07_import_borrowed_handle_in_tuple_never_dropped_by_the_call() {
        let h = any_handle();
        let n: u32 = kani::any();
        unsafe {
            let t = Thing::from_handle(h);
            let _ = imp::peek_pair((&t, n));
            kani::assert(logged() == 1 && count(|e| *e == Ev::PeekPair(h, n)) == 1 && t.handle() == h, "a borrowed handle inside a tuple is passed, not dropped; the caller still owns it");
            drop(t);
            kani::assert(logged() == 2 && count(|e| *e == Ev::DropThing(h)) == 1, "the owner drops it exactly once");
        }
    }

    // ---- handles of the IMPORTED resource arriving at an export
    /// A borrow of a resource this component does not implement arrives as a handle in the guest's table that is only lent for the
    /// call: CanonicalABI.md requires the callee to have dropped it when the call returns (`exit_call` traps otherwise), and
    /// never earlier than the user's code is done with it.  So "the guest never drops a borrow" here means: the USER never has to,
    /// and the bindings release the lent handle exactly once, after the user function returned.
    #[kani::proof]
    pub fn c07_export_lent_borrow_of_imported_resource_released_once_after_the_call() {
        let h = any_handle();
        unsafe {
            let r = exports::verif::res::exp::_export_use_thing_cabi::<Impl>(h as i32);
            kani::assert(r == 9 && TAKEN_HANDLE == h, "the user function sees the lent handle");
            kani::assert(LOGGED_WHEN_USER_RAN == 0, "nothing was released before or while the user function ran");
            kani::assert(logged() == 1 && count(|e| *e == Ev::DropThing(h)) == 1, "the lent handle is released exactly once, after the user function returned");
        }
    }
    #[kani::proof]
    pub fn c07_export_owned_imported_resource_dropped_once_by_its_owner() {
        let h = any_handle();
        let keep: bool = kani::any();
        unsafe {
            KEEP = keep;
            let r = exports::verif::res::exp::_export_adopt_cabi::<Impl>(h as i32);
            kani::assert(r == 11 && TAKEN_HANDLE == h, "the user function receives the owned handle");
            if KEEP {
                kani::assert(logged() == 0, "a handle the user kept is not dropped by the bindings");
                let t = KEPT.take().unwrap();
                kani::assert(t.handle() == h, "it is still the same handle");
                drop(t);
            }
            kani::assert(logged() == 1 && count(|e| *e == Ev::DropThing(h)) == 1, "dropped exactly once, when its Rust value is dropped");
        }
        kani::cover!(keep);
        kani::cover!(!keep);
    }
    #[kani::proof]
    pub fn c07_export_owned_handle_in_option_parameter() {
        let h = any_handle();
        let some: bool = kani::any();
        unsafe {
            let r = exports::verif::res::exp::_export_take_opt_cabi::<Impl>(some as i32, if some { h as i32 } else { 0 });
            kani::assert(r == 13 && OPT_SEEN == (some, if some { h } else { 0 }), "the user function receives the option the host sent");
            kani::assert(logged() == some as usize && count(|e| *e == Ev::DropCounter(h)) == some as usize, "some(own): dropped exactly once with its value; none: nothing is dropped");
        }
    }

    /// A borrow of an EXPORTED resource is the representation itself, whatever name the resource is reached by (here through `use` in a
    /// second exported interface): receiving one creates no handle, so the bindings must not call resource.drop or resource.rep on it.
    #[kani::proof]
    pub fn c07_export_borrow_of_exported_resource_through_alias_touches_no_handle() {
        let rep: i32 = kani::any();
        let some: bool = kani::any();
        let plain: bool = kani::any();
        unsafe {
            if plain {
                let r = exports::verif::res::exp2::_export_look_again_cabi::<Impl>(rep);
                kani::assert(r == 21, "the user function ran");
            } else {
                let r = exports::verif::res::exp2::_export_maybe_look_cabi::<Impl>(some as i32, if some { rep } else { 0 });
                kani::assert(r == some as i32, "the user function received the option the host sent");
            }
            kani::assert(LOOKED_AGAIN == 1 && logged() == 0, "no resource.drop, resource.rep or any other handle operation: the borrow is not a handle");
        }
    }
}
