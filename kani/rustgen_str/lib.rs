//! C24 (the `cabi_dealloc` runtime item): `probe.rs` is the output of the REAL Rust generator for
//! kani/rustgen_str/probe.wit (string and list<u8> parameters/results), unedited.  The generated `_rt::cabi_dealloc` and the
//! generated post-return functions are driven with the global allocator's `dealloc` replaced by a recording contract stub.
#![allow(unused, static_mut_refs, non_snake_case)]
include!("probe.rs");

pub struct Impl;
impl Guest for Impl {
    fn echo(a: _rt::String) -> _rt::String {
        a
    }
    fn bytes(a: _rt::Vec<u8>) -> _rt::Vec<u8> {
        a
    }
}

#[cfg(kani)]
mod proofs {
    use super::*;
    use core::alloc::Layout;

    static mut DEALLOCS: u32 = 0;
    static mut LAST: (usize, usize, usize) = (0, 0, 0);
    unsafe fn dealloc_stub(ptr: *mut u8, layout: Layout) {
        unsafe {
            DEALLOCS += 1;
            LAST = (ptr as usize, layout.size(), layout.align());
        }
    }

    /// vacuity canary: must FAIL
    #[kani::proof]
    pub fn verif_canary_must_fail() {
        let x: u8 = kani::any();
        assert!(x != 7);
    }

    /// cabi_dealloc(ptr, size, align): nothing for size 0, otherwise exactly one `dealloc(ptr, Layout{size, align})`
    #[kani::proof]
    #[kani::stub(alloc::alloc::dealloc, dealloc_stub)]
    pub fn c24_cabi_dealloc_item() {
        let p: usize = kani::any();
        let size: usize = kani::any();
        let align: usize = kani::any();
        kani::assume(align.is_power_of_two() && size <= isize::MAX as usize - (align - 1));
        unsafe {
            _rt::cabi_dealloc(p as *mut u8, size, align);
            if size == 0 {
                kani::assert(DEALLOCS == 0, "a zero-sized block was never allocated: nothing is freed");
            } else {
                kani::assert(DEALLOCS == 1, "a block is freed exactly once");
                kani::assert(LAST == (p, size, align), "freed with the pointer, size and alignment it was allocated with");
            }
        }
        kani::cover!(size == 0);
        kani::cover!(size != 0);
    }

    /// the generated post-return of a string / list<u8> result frees exactly the buffer named in the return area, with its
    /// length as size and the element alignment 1 (and nothing when the result was empty)
    #[kani::proof]
    #[kani::stub(alloc::alloc::dealloc, dealloc_stub)]
    pub fn c24_post_return_frees_exactly_the_result_buffer() {
        let p: usize = kani::any();
        let len: usize = kani::any();
        kani::assume(len <= isize::MAX as usize);
        let which: bool = kani::any();
        let mut area: [usize; 2] = [p, len];
        unsafe {
            if which {
                __post_return_echo::<Impl>(area.as_mut_ptr().cast());
            } else {
                __post_return_bytes::<Impl>(area.as_mut_ptr().cast());
            }
            if len == 0 {
                kani::assert(DEALLOCS == 0, "an empty result owns no buffer");
            } else {
                kani::assert(DEALLOCS == 1 && LAST == (p, len, 1), "post-return frees the returned buffer exactly once with the size and alignment it was allocated with");
            }
        }
    }
}
