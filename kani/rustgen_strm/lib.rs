//! C19, generated side (partial, bounded): the stream payload vtables (`StreamVtable<T>`: lower / lift / dealloc_lists / layout) the REAL
//! Rust generator emits for kani/rustgen_strm/probe.wit.  The runtime's `AbiBuffer` (C19's in-crate obligations, with a mock
//! `StreamOps`) calls `lower` once per value, `dealloc_lists` once per value the host reported as transferred and `lift` once per value
//! that was not; this crate proves what the generated hooks do, so that "every heap buffer created to lower a value is released exactly
//! once" holds end to end: a payload whose lowering allocates MUST come with a `dealloc_lists` hook that frees exactly those buffers.
#![allow(unused, static_mut_refs, non_snake_case)]
include!("probe.rs");
extern crate alloc;
pub const P: usize = core::mem::size_of::<usize>();

pub struct Impl;
impl Guest for Impl {
    fn names() -> wit_bindgen::rt::async_support::StreamReader<String> { unreachable!() }
    fn octets() -> wit_bindgen::rt::async_support::StreamReader<u8> { unreachable!() }
    fn items() -> wit_bindgen::rt::async_support::StreamReader<Item> { unreachable!() }
    fn bits() -> wit_bindgen::rt::async_support::StreamReader<bool> { unreachable!() }
}

// ------------------------------------------------------------------------------------------------ allocation ledger
// seven slots, handled without loops (loops in allocator stubs multiply CBMC's unwinding work)
pub static mut L0: (usize, usize, usize) = (0, 0, 0); // (ptr, size, align); ptr 0 = free slot
pub static mut L1: (usize, usize, usize) = (0, 0, 0);
pub static mut L2: (usize, usize, usize) = (0, 0, 0);
pub static mut L3: (usize, usize, usize) = (0, 0, 0);
pub static mut L4: (usize, usize, usize) = (0, 0, 0);
pub static mut L5: (usize, usize, usize) = (0, 0, 0);
pub static mut L6: (usize, usize, usize) = (0, 0, 0);
pub static mut BAD_FREE: bool = false; // freed something not live, or with another layout
pub static mut LEDGER_FULL: bool = false;
pub static mut ALLOCS: u32 = 0;
pub static mut FREES: u32 = 0;
fn ledger_add(p: usize, size: usize, align: usize) {
    unsafe {
        let e = (p, size, align);
        if L0.0 == 0 {
            L0 = e;
        } else if L1.0 == 0 {
            L1 = e;
        } else if L2.0 == 0 {
            L2 = e;
        } else if L3.0 == 0 {
            L3 = e;
        } else if L4.0 == 0 {
            L4 = e;
        } else if L5.0 == 0 {
            L5 = e;
        } else if L6.0 == 0 {
            L6 = e;
        } else {
            LEDGER_FULL = true;
        }
    }
}
fn ledger_remove(p: usize, size: usize, align: usize) {
    unsafe {
        let e = (p, size, align);
        if L0 == e {
            L0 = (0, 0, 0);
        } else if L1 == e {
            L1 = (0, 0, 0);
        } else if L2 == e {
            L2 = (0, 0, 0);
        } else if L3 == e {
            L3 = (0, 0, 0);
        } else if L4 == e {
            L4 = (0, 0, 0);
        } else if L5 == e {
            L5 = (0, 0, 0);
        } else if L6 == e {
            L6 = (0, 0, 0);
        } else {
            BAD_FREE = true;
        }
    }
}
pub fn is_live(p: usize) -> bool {
    unsafe { p != 0 && (L0.0 == p || L1.0 == p || L2.0 == p || L3.0 == p || L4.0 == p || L5.0 == p || L6.0 == p) }
}
pub fn live_blocks() -> usize {
    unsafe { (L0.0 != 0) as usize + (L1.0 != 0) as usize + (L2.0 != 0) as usize + (L3.0 != 0) as usize + (L4.0 != 0) as usize + (L5.0 != 0) as usize + (L6.0 != 0) as usize }
}
// (std's `Global` goes through the private `dealloc_nonnull` / `realloc_nonnull`, which are stubbed as well.)
// The stubs replace alloc / dealloc / realloc everywhere (Vec, String, Box, the generated code).  A stub cannot call the
// function it replaces, so memory is obtained from `alloc_zeroed` (not stubbed: Kani's allocator model) and is never
// handed back to the model: a "free" only updates the ledger.  Consequences: double frees, frees with a foreign layout and
// leaks are observed by the ledger; reads/writes outside a block by CBMC's pointer checks; a read AFTER free is not.
pub unsafe fn alloc_stub(layout: core::alloc::Layout) -> *mut u8 {
    unsafe {
        let p = alloc::alloc::alloc_zeroed(layout);
        ALLOCS += 1;
        if !p.is_null() {
            ledger_add(p as usize, layout.size(), layout.align());
        }
        p
    }
}
pub unsafe fn dealloc_stub(ptr: *mut u8, layout: core::alloc::Layout) {
    unsafe {
        FREES += 1;
        ledger_remove(ptr as usize, layout.size(), layout.align());
    }
}
pub unsafe fn dealloc_nonnull_stub(ptr: core::ptr::NonNull<u8>, layout: core::alloc::Layout) {
    unsafe { dealloc_stub(ptr.as_ptr(), layout) }
}
pub unsafe fn realloc_nonnull_stub(ptr: core::ptr::NonNull<u8>, layout: core::alloc::Layout, new_size: usize) -> *mut u8 {
    unsafe { realloc_stub(ptr.as_ptr(), layout, new_size) }
}
pub unsafe fn realloc_stub(ptr: *mut u8, layout: core::alloc::Layout, new_size: usize) -> *mut u8 {
    unsafe {
        ledger_remove(ptr as usize, layout.size(), layout.align());
        let p = alloc::alloc::alloc_zeroed(core::alloc::Layout::from_size_align_unchecked(new_size, layout.align()));
        if !p.is_null() {
            let n = if layout.size() < new_size { layout.size() } else { new_size };
            core::ptr::copy_nonoverlapping(ptr, p, n);
            ledger_add(p as usize, new_size, layout.align());
        }
        p
    }
}


#[cfg(kani)]
mod proofs {
    use super::*;
    use wit_stream::StreamPayload;
    #[kani::proof]
    fn verif_canary_must_fail() {
        let x: u8 = kani::any();
        assert!(x != 7);
    }
    fn ascii2() -> [u8; 2] {
        let b: [u8; 2] = kani::any();
        kani::assume(b[0] < 0x80 && b[1] < 0x80);
        b
    }
    fn string_of(b: &[u8; 2], n: usize) -> String {
        let mut v: Vec<u8> = Vec::new();
        if n >= 1 { v.push(b[0]); }
        if n >= 2 { v.push(b[1]); }
        unsafe { String::from_utf8_unchecked(v) }
    }
    fn from_utf8_stub(v: Vec<u8>) -> Result<String, alloc::string::FromUtf8Error> {
        Ok(unsafe { String::from_utf8_unchecked(v) })
    }
    macro_rules! ledger_proof {
        (fn $name:ident() $body:block) => {
            #[kani::proof]
            #[kani::unwind(4)]
            #[kani::stub(alloc::alloc::alloc, alloc_stub)]
            #[kani::stub(alloc::alloc::dealloc, dealloc_stub)]
            #[kani::stub(alloc::alloc::realloc, realloc_stub)]
            #[kani::stub(alloc::alloc::dealloc_nonnull, dealloc_nonnull_stub)]
            #[kani::stub(alloc::alloc::realloc_nonnull, realloc_nonnull_stub)]
            #[kani::stub(alloc::string::String::from_utf8, from_utf8_stub)]
            pub fn $name() $body
        };
    }
    /// the element slot the runtime gives the hooks (4 machine words, aligned: large enough for every payload of the probe on this target)
    #[repr(align(8))]
    struct Slot([u8; 32]);

    /// stream<string>: string length fixed per harness (0, 1, 2), contents symbolic; `transferred` = the host took the value
    fn string_payload(n: usize) {
        let vt = <String as StreamPayload>::VTABLE;
        let transferred: bool = kani::any();
        let b = ascii2();
        let mut slot = Slot([0; 32]);
        let p = slot.0.as_mut_ptr();
        unsafe {
            kani::assert(vt.lower.is_some() && vt.lift.is_some(), "a string payload is lowered and lifted element by element");
            kani::assert(vt.layout.size() == 8 && vt.layout.align() == 4, "the element layout is the wasm32 (pointer, length) pair");
            (vt.lower.unwrap())(string_of(&b, n), p);
            let (bp, bl): (usize, usize) = (p.cast::<usize>().read(), p.add(P).cast::<usize>().read());
            kani::assert(bl == n && (n < 1 || *(bp as *const u8) == b[0]) && (n < 2 || *(bp as *const u8).add(1) == b[1]), "the string is lowered as (pointer, length) of the same bytes");
            let lowered = live_blocks();
            kani::assert(lowered == (n > 0) as usize && (n == 0 || is_live(bp)), "lowering keeps exactly the string's buffer allocated");
            if transferred {
                kani::assert(lowered == 0 || vt.dealloc_lists.is_some(), "a payload whose lowering allocates comes with a release hook");
                if let Some(d) = vt.dealloc_lists { d(p); }
                kani::assert(!BAD_FREE && live_blocks() == 0, "after a transferred value's release hook ran, every buffer created to lower it is freed, exactly once");
            } else {
                let back = (vt.lift.unwrap())(p);
                kani::assert(back.len() == n && (n < 1 || back.as_bytes()[0] == b[0]) && (n < 2 || back.as_bytes()[1] == b[1]), "a value that was not transferred is lifted back unchanged");
                kani::assert(n == 0 || back.as_ptr() as usize == bp, "... from its own buffer (no copy)");
                drop(back);
                kani::assert(!BAD_FREE && live_blocks() == 0, "dropping the value that came back frees its buffer exactly once");
            }
            kani::assert(!LEDGER_FULL, "HARNESS-LIMIT: allocation ledger full");
        }
        kani::cover!(transferred);
        kani::cover!(!transferred);
    }
    ledger_proof! { fn c19_payload_string_len0() { string_payload(0); } }
    ledger_proof! { fn c19_payload_string_len1() { string_payload(1); } }
    ledger_proof! { fn c19_payload_string_len2() { string_payload(2); } }

    /// stream<record { u32, string }>
    fn record_payload(n: usize) {
        let vt = <Item as StreamPayload>::VTABLE;
        let transferred: bool = kani::any();
        let b = ascii2();
        let id: u32 = kani::any();
        let mut slot = Slot([0; 32]);
        let p = slot.0.as_mut_ptr();
        unsafe {
            kani::assert(vt.lower.is_some() && vt.lift.is_some(), "a record payload is lowered and lifted element by element");
            kani::assert(vt.layout.size() == 12 && vt.layout.align() == 4, "the element layout is the wasm32 record (u32 @0, pointer @4, length @8)");
            (vt.lower.unwrap())(Item { id, name: string_of(&b, n) }, p);
            let (rid, bp, bl): (u32, usize, usize) = (p.cast::<u32>().read(), p.add(P).cast::<usize>().read(), p.add(2 * P).cast::<usize>().read());
            kani::assert(rid == id && bl == n && (n < 1 || *(bp as *const u8) == b[0]), "the record is lowered field by field");
            let lowered = live_blocks();
            kani::assert(lowered == (n > 0) as usize, "lowering keeps exactly the field's buffer allocated");
            if transferred {
                kani::assert(lowered == 0 || vt.dealloc_lists.is_some(), "a payload whose lowering allocates comes with a release hook");
                if let Some(d) = vt.dealloc_lists { d(p); }
                kani::assert(!BAD_FREE && live_blocks() == 0, "after a transferred value's release hook ran, every buffer created to lower it is freed, exactly once");
            } else {
                let back = (vt.lift.unwrap())(p);
                kani::assert(back.id == id && back.name.len() == n && (n < 1 || back.name.as_bytes()[0] == b[0]), "a value that was not transferred is lifted back unchanged");
                drop(back);
                kani::assert(!BAD_FREE && live_blocks() == 0, "dropping the value that came back frees its buffer exactly once");
            }
            kani::assert(!LEDGER_FULL, "HARNESS-LIMIT: allocation ledger full");
        }
        kani::cover!(transferred);
        kani::cover!(!transferred);
    }
    ledger_proof! { fn c19_payload_record_with_string_len0() { record_payload(0); } }
    ledger_proof! { fn c19_payload_record_with_string_len1() { record_payload(1); } }

    /// stream<u8> is canonical (no hooks: the bytes are copied as they are); stream<bool> is lifted / lowered but owns nothing
    ledger_proof! { fn c19_payload_without_heap_needs_no_release() {
        let vu = <u8 as StreamPayload>::VTABLE;
        kani::assert(vu.lower.is_none() && vu.lift.is_none() && vu.dealloc_lists.is_none() && vu.layout.size() == 1 && vu.layout.align() == 1, "a canonical payload has no hooks and its own size as element size");
        let vb = <bool as StreamPayload>::VTABLE;
        let v: bool = kani::any();
        let mut slot = Slot([0; 32]);
        let p = slot.0.as_mut_ptr();
        unsafe {
            kani::assert(vb.lower.is_some() && vb.lift.is_some() && vb.layout.size() == 1, "a bool payload is lowered and lifted (one byte)");
            (vb.lower.unwrap())(v, p);
            kani::assert(*p == v as u8 && live_blocks() == 0, "bool is lowered as 0 / 1 and allocates nothing");
            if let Some(d) = vb.dealloc_lists { d(p); }
            kani::assert(!BAD_FREE && live_blocks() == 0 && FREES == 0, "its release hook, if there is one, frees nothing");
            kani::assert((vb.lift.unwrap())(p) == v, "and it is lifted back unchanged");
        }
    }}
}
