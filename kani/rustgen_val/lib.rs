//! C05 / C06 (partial, bounded): `probe.rs` is the output of the REAL Rust generator for kani/rustgen_val/probe.wit, unedited.
//! The harness plays the component-model host at the core-ABI boundary: it lowers a value into flat parameters and linear
//! memory BY HAND, following CanonicalABI.md (`lower_flat`, `store`, alignment/size rules, pointer size = this target's),
//! calls the generated export trampoline, lets the user function record what it received and return a value the harness
//! chose, reads the result back out of the return area BY HAND (`load`), and finally calls the generated post-return.
//! Every heap block goes through a ledger (stubs on the global allocator's entry points), so "taken over exactly once",
//! "freed exactly once with the layout it was allocated with" and "nothing left allocated" are assertions, and CBMC's own
//! pointer checks cover out-of-bounds and use-after-free.
#![allow(unused, static_mut_refs, non_snake_case)]
include!("probe.rs");
extern crate alloc;

// Pt, Shape, Perms, Color, Person are re-exported at the root by the generated file
pub const P: usize = core::mem::size_of::<usize>();

// ------------------------------------------------------------------------------------------------ allocation ledger
// seven slots, handled without loops (loops in allocator stubs multiply CBMC's unwinding work)
pub static mut L0: (usize, usize, usize) = (0, 0, 0); // (ptr, size, align); ptr 0 = free slot
pub static mut L1: (usize, usize, usize) = (0, 0, 0);
pub static mut L2: (usize, usize, usize) = (0, 0, 0);
pub static mut L3: (usize, usize, usize) = (0, 0, 0);
pub static mut L4: (usize, usize, usize) = (0, 0, 0);
pub static mut L5: (usize, usize, usize) = (0, 0, 0);
pub static mut L6: (usize, usize, usize) = (0, 0, 0);
pub static mut BAD_FREE: bool = false; // freed something not live, or with another layout
pub static mut LEDGER_FULL: bool = false;
pub static mut ALLOCS: u32 = 0;
pub static mut FREES: u32 = 0;
fn ledger_add(p: usize, size: usize, align: usize) {
    unsafe {
        let e = (p, size, align);
        if L0.0 == 0 {
            L0 = e;
        } else if L1.0 == 0 {
            L1 = e;
        } else if L2.0 == 0 {
            L2 = e;
        } else if L3.0 == 0 {
            L3 = e;
        } else if L4.0 == 0 {
            L4 = e;
        } else if L5.0 == 0 {
            L5 = e;
        } else if L6.0 == 0 {
            L6 = e;
        } else {
            LEDGER_FULL = true;
        }
    }
}
fn ledger_remove(p: usize, size: usize, align: usize) {
    unsafe {
        let e = (p, size, align);
        if L0 == e {
            L0 = (0, 0, 0);
        } else if L1 == e {
            L1 = (0, 0, 0);
        } else if L2 == e {
            L2 = (0, 0, 0);
        } else if L3 == e {
            L3 = (0, 0, 0);
        } else if L4 == e {
            L4 = (0, 0, 0);
        } else if L5 == e {
            L5 = (0, 0, 0);
        } else if L6 == e {
            L6 = (0, 0, 0);
        } else {
            BAD_FREE = true;
        }
    }
}
pub fn is_live(p: usize) -> bool {
    unsafe { p != 0 && (L0.0 == p || L1.0 == p || L2.0 == p || L3.0 == p || L4.0 == p || L5.0 == p || L6.0 == p) }
}
pub fn live_blocks() -> usize {
    unsafe { (L0.0 != 0) as usize + (L1.0 != 0) as usize + (L2.0 != 0) as usize + (L3.0 != 0) as usize + (L4.0 != 0) as usize + (L5.0 != 0) as usize + (L6.0 != 0) as usize }
}
// (std's `Global` goes through the private `dealloc_nonnull` / `realloc_nonnull`, which are stubbed as well.)
// The stubs replace alloc / dealloc / realloc everywhere (Vec, String, Box, the generated code).  A stub cannot call the
// function it replaces, so memory is obtained from `alloc_zeroed` (not stubbed: Kani's allocator model) and is never
// handed back to the model: a "free" only updates the ledger.  Consequences: double frees, frees with a foreign layout and
// leaks are observed by the ledger; reads/writes outside a block by CBMC's pointer checks; a read AFTER free is not.
pub unsafe fn alloc_stub(layout: core::alloc::Layout) -> *mut u8 {
    unsafe {
        let p = alloc::alloc::alloc_zeroed(layout);
        ALLOCS += 1;
        if !p.is_null() {
            ledger_add(p as usize, layout.size(), layout.align());
        }
        p
    }
}
pub unsafe fn dealloc_stub(ptr: *mut u8, layout: core::alloc::Layout) {
    unsafe {
        FREES += 1;
        ledger_remove(ptr as usize, layout.size(), layout.align());
    }
}
pub unsafe fn dealloc_nonnull_stub(ptr: core::ptr::NonNull<u8>, layout: core::alloc::Layout) {
    unsafe { dealloc_stub(ptr.as_ptr(), layout) }
}
pub unsafe fn realloc_nonnull_stub(ptr: core::ptr::NonNull<u8>, layout: core::alloc::Layout, new_size: usize) -> *mut u8 {
    unsafe { realloc_stub(ptr.as_ptr(), layout, new_size) }
}
pub unsafe fn realloc_stub(ptr: *mut u8, layout: core::alloc::Layout, new_size: usize) -> *mut u8 {
    unsafe {
        ledger_remove(ptr as usize, layout.size(), layout.align());
        let p = alloc::alloc::alloc_zeroed(core::alloc::Layout::from_size_align_unchecked(new_size, layout.align()));
        if !p.is_null() {
            let n = if layout.size() < new_size { layout.size() } else { new_size };
            core::ptr::copy_nonoverlapping(ptr, p, n);
            ledger_add(p as usize, new_size, layout.align());
        }
        p
    }
}

// ------------------------------------------------------------------------------------------------ mock host (imports, rule R1)
pub static mut SINK_CALLS: u32 = 0;
pub static mut SINK_RECORDS_LIVE: bool = false;
pub static mut SINK_LEN: usize = 0;
pub static mut SINK_ELEM0: (usize, usize) = (0, 0);
pub static mut SINK_FIRST_BYTE: u8 = 0;
pub static mut TAKE: (usize, usize, usize, usize) = (0, 0, 0, 0);
pub static mut TAKE_FIRST: (u8, u32) = (0, 0);
pub static mut FETCH_CALLS: u32 = 0;
pub static mut FETCH_ARG: u32 = 0;
pub static mut FETCH_LEN: usize = 0;
pub static mut FETCH_INNER: usize = 0;
pub static mut FETCH_BYTE: u8 = 0;
pub static mut FVAR_CALLS: u32 = 0;
pub static mut HOST_FVAR: (i32, u64) = (0, 0); // what the host lifted: (case, payload bits)
pub static mut HOST_FVAR_RET: (u8, u64) = (0, 0); // what the host returns
pub mod mockhost {
    use super::*;
    /// fetch-names(n) -> list<string>: the host allocates the list and every string in the guest (through cabi_realloc: here the ledger's
    /// allocator) and stores (pointer, length) in the return area; afterwards all of it belongs to the caller
    pub unsafe fn verif_val_sinks__fetch_names(n: i32, ret: *mut u8) {
        unsafe {
            FETCH_CALLS += 1;
            FETCH_ARG = n as u32;
            let list: *mut u8 = if FETCH_LEN == 0 { P as *mut u8 } else { alloc_stub(core::alloc::Layout::from_size_align(2 * P * FETCH_LEN, P).unwrap()) };
            let mut i = 0;
            while i < FETCH_LEN {
                let e: *mut u8 = if FETCH_INNER == 0 { 1 as *mut u8 } else {
                    let e = alloc_stub(core::alloc::Layout::from_size_align(FETCH_INNER, 1).unwrap());
                    *e = FETCH_BYTE;
                    e
                };
                list.add(2 * P * i).cast::<*mut u8>().write(e);
                list.add(2 * P * i + P).cast::<usize>().write(FETCH_INNER);
                i += 1;
            }
            ret.cast::<*mut u8>().write(list);
            ret.add(P).cast::<usize>().write(FETCH_LEN);
        }
    }
    /// take-str(string, list<u32>): flat (pointer, length, pointer, length); the callee reads the bytes / words while it runs
    pub unsafe fn verif_val_sinks__take_str(sp: *mut u8, sl: usize, lp: *mut u8, ll: usize) -> i32 {
        unsafe {
            TAKE = (sp as usize, sl, lp as usize, ll);
            TAKE_FIRST = (if sl > 0 { *sp } else { 0 }, if ll > 0 { lp.cast::<u32>().read_unaligned() } else { 0 });
            7
        }
    }
    /// send-fvar(variant { f(f32), w(u64), d(f64) }) -> the same type: flat (case, joined i64 slot, return pointer).  The host lifts as
    /// CanonicalABI.md's lift_flat_variant does (an f32 in an i64 slot: wrap to i32, reinterpret) and stores its result canonically.
    pub unsafe fn verif_val_sinks__send_fvar(case: i32, slot: i64, ret: *mut u8) {
        unsafe {
            FVAR_CALLS += 1;
            HOST_FVAR = (case, if case == 0 { (slot as u32) as u64 } else { slot as u64 });
            *ret = HOST_FVAR_RET.0;
            if HOST_FVAR_RET.0 == 0 {
                ret.add(8).cast::<u32>().write(HOST_FVAR_RET.1 as u32);
            } else {
                ret.add(8).cast::<u64>().write(HOST_FVAR_RET.1);
            }
        }
    }
    /// nested-list(option<list<string>>): flat (discriminant, pointer to (ptr,len) records, length)
    pub unsafe fn verif_val_sinks__nested_list(disc: i32, records: *mut u8, len: usize) -> i32 {
        unsafe {
            SINK_CALLS += 1;
            SINK_LEN = len;
            if disc == 1 && len > 0 {
                // the records buffer is scratch memory of the lowering: it must still be allocated while the callee runs
                SINK_RECORDS_LIVE = is_live(records as usize);
                SINK_ELEM0 = (core::ptr::read_unaligned(records.cast::<usize>()), core::ptr::read_unaligned(records.add(P).cast::<usize>()));
                if SINK_ELEM0.1 > 0 {
                    SINK_FIRST_BYTE = *(SINK_ELEM0.0 as *const u8);
                }
            }
            disc
        }
    }
}

// ------------------------------------------------------------------------------------------------ the user's functions
pub struct Impl;
pub static mut CALLS: u32 = 0;
pub static mut SEEN_STR: Option<String> = None;
pub static mut RET_STR: Option<String> = None;
pub static mut SEEN_BYTES: Option<Vec<u8>> = None;
pub static mut RET_BYTES: Option<Vec<u8>> = None;
pub static mut SEEN_WORDS: Option<Vec<u32>> = None;
pub static mut RET_WORDS: Option<Vec<u32>> = None;
pub static mut SEEN_STRS: Option<Vec<String>> = None;
pub static mut RET_STRS: Option<Vec<String>> = None;
pub static mut SEEN_PAIRS: Option<Vec<(u8, u32, u8)>> = None;
pub static mut RET_PAIRS: Option<Vec<(u8, u32, u8)>> = None;
pub static mut SEEN_ENTRIES: Option<Vec<Entry>> = None;
pub static mut RET_ENTRIES: Option<Vec<Entry>> = None;
pub static mut SEEN_SCAL: Option<Scal> = None;
pub static mut RET_SCAL: Option<Scal> = None;
pub static mut SEEN_BIG: u32 = 0;
pub static mut RET_BIG: u32 = 0;
pub static mut SEEN_OO: Option<Option<u8>> = None;
pub static mut RET_OO: Option<Option<u8>> = None;
pub static mut SEEN_ROK: Result<u32, ()> = Err(());
pub static mut RET_ROK: Result<u32, ()> = Err(());
pub static mut SEEN_RERR: Result<(), u8> = Ok(());
pub static mut RET_RERR: Result<(), u8> = Ok(());
pub static mut SEEN_FVAR: Option<Fvar> = None;
pub static mut RET_FVAR: Option<Fvar> = None;
pub static mut SEEN_PERSON: Option<Person> = None;
pub static mut RET_PERSON: Option<Person> = None;
pub static mut SEEN_RSTR: Option<Result<String, u32>> = None;
pub static mut RET_RSTR: Option<Result<String, u32>> = None;
pub static mut SEEN_PT: (u8, u32) = (0, 0);
pub static mut RET_PT: (u8, u32) = (0, 0);
pub static mut SEEN_SHAPE: (u8, u64) = (0, 0); // (case, numeric payload)
pub static mut SEEN_LABEL: Option<String> = None;
pub static mut RET_SHAPE: (u8, u64) = (0, 0);
pub static mut RET_LABEL: Option<String> = None;
pub static mut SEEN_OPT: Option<u32> = None;
pub static mut RET_OPT: Option<u32> = None;
pub static mut SEEN_RES: Result<u32, u8> = Ok(0);
pub static mut RET_RES: Result<u32, u8> = Ok(0);
pub static mut SEEN_TUPLE: (u8, u64) = (0, 0);
pub static mut RET_TUPLE: (u8, u64) = (0, 0);
pub static mut SEEN_PERMS: u8 = 0;
pub static mut RET_PERMS: u8 = 0;
pub static mut SEEN_COLOR: u8 = 0;
pub static mut RET_COLOR: u8 = 0;
fn color_of(i: u8) -> Color {
    match i {
        0 => Color::Red,
        1 => Color::Green,
        _ => Color::Blue,
    }
}
fn color_idx(c: Color) -> u8 {
    match c {
        Color::Red => 0,
        Color::Green => 1,
        Color::Blue => 2,
    }
}
impl Guest for Impl {
    fn echo_str(a: String) -> String {
        unsafe {
            CALLS += 1;
            SEEN_STR = Some(a);
            RET_STR.take().unwrap()
        }
    }
    fn echo_bytes(a: Vec<u8>) -> Vec<u8> {
        unsafe {
            CALLS += 1;
            SEEN_BYTES = Some(a);
            RET_BYTES.take().unwrap()
        }
    }
    fn echo_words(a: Vec<u32>) -> Vec<u32> {
        unsafe {
            CALLS += 1;
            SEEN_WORDS = Some(a);
            RET_WORDS.take().unwrap()
        }
    }
    fn echo_strs(a: Vec<String>) -> Vec<String> {
        unsafe {
            CALLS += 1;
            SEEN_STRS = Some(a);
            RET_STRS.take().unwrap()
        }
    }
    fn echo_pairs(a: Vec<(u8, u32, u8)>) -> Vec<(u8, u32, u8)> {
        unsafe {
            CALLS += 1;
            SEEN_PAIRS = Some(a);
            RET_PAIRS.take().unwrap()
        }
    }
    fn echo_entries(a: Vec<Entry>) -> Vec<Entry> {
        unsafe {
            CALLS += 1;
            SEEN_ENTRIES = Some(a);
            RET_ENTRIES.take().unwrap()
        }
    }
    fn echo_scal(a: Scal) -> Scal {
        unsafe {
            CALLS += 1;
            SEEN_SCAL = Some(a);
            RET_SCAL.unwrap()
        }
    }
    fn echo_big(a: Big) -> Big {
        unsafe {
            CALLS += 1;
            SEEN_BIG = a.bits();
            Big::from_bits_retain(RET_BIG)
        }
    }
    fn echo_oo(a: Option<Option<u8>>) -> Option<Option<u8>> {
        unsafe {
            CALLS += 1;
            SEEN_OO = a;
            RET_OO
        }
    }
    fn echo_rok(a: Result<u32, ()>) -> Result<u32, ()> {
        unsafe {
            CALLS += 1;
            SEEN_ROK = a;
            RET_ROK
        }
    }
    fn echo_rerr(a: Result<(), u8>) -> Result<(), u8> {
        unsafe {
            CALLS += 1;
            SEEN_RERR = a;
            RET_RERR
        }
    }
    fn echo_fvar(a: Fvar) -> Fvar {
        unsafe {
            CALLS += 1;
            SEEN_FVAR = Some(a);
            RET_FVAR.take().unwrap()
        }
    }
    fn echo_person(a: Person) -> Person {
        unsafe {
            CALLS += 1;
            SEEN_PERSON = Some(a);
            RET_PERSON.take().unwrap()
        }
    }
    fn echo_rstr(a: Result<String, u32>) -> Result<String, u32> {
        unsafe {
            CALLS += 1;
            SEEN_RSTR = Some(a);
            RET_RSTR.take().unwrap()
        }
    }
    fn echo_pt(a: Pt) -> Pt {
        unsafe {
            CALLS += 1;
            SEEN_PT = (a.x, a.y);
            Pt { x: RET_PT.0, y: RET_PT.1 }
        }
    }
    fn echo_shape(a: Shape) -> Shape {
        unsafe {
            CALLS += 1;
            match a {
                Shape::None => SEEN_SHAPE = (0, 0),
                Shape::Circle(r) => SEEN_SHAPE = (1, r as u64),
                Shape::Wide(w) => SEEN_SHAPE = (2, w),
                Shape::Label(s) => {
                    SEEN_SHAPE = (3, 0);
                    SEEN_LABEL = Some(s);
                }
            }
            match RET_SHAPE.0 {
                0 => Shape::None,
                1 => Shape::Circle(RET_SHAPE.1 as u32),
                2 => Shape::Wide(RET_SHAPE.1),
                _ => Shape::Label(RET_LABEL.take().unwrap()),
            }
        }
    }
    fn echo_opt(a: Option<u32>) -> Option<u32> {
        unsafe {
            CALLS += 1;
            SEEN_OPT = a;
            RET_OPT
        }
    }
    fn echo_res(a: Result<u32, u8>) -> Result<u32, u8> {
        unsafe {
            CALLS += 1;
            SEEN_RES = a;
            RET_RES
        }
    }
    fn echo_tuple(a: (u8, u64)) -> (u8, u64) {
        unsafe {
            CALLS += 1;
            SEEN_TUPLE = a;
            RET_TUPLE
        }
    }
    fn echo_perms(a: Perms) -> Perms {
        unsafe {
            CALLS += 1;
            SEEN_PERMS = a.bits();
            Perms::from_bits_retain(RET_PERMS)
        }
    }
    fn echo_color(a: Color) -> Color {
        unsafe {
            CALLS += 1;
            SEEN_COLOR = color_idx(a);
            color_of(RET_COLOR)
        }
    }
}

#[cfg(kani)]
mod proofs {
    use super::*;
    use core::alloc::Layout;

    /// vacuity canary: must FAIL
    #[kani::proof]
    pub fn verif_canary_must_fail() {
        let x: u8 = kani::any();
        assert!(x != 7);
    }

    unsafe fn rd<T: Copy>(p: *mut u8, off: usize) -> T {
        unsafe { core::ptr::read_unaligned(p.add(off).cast::<T>()) }
    }

    // ---------------------------------------------------------------------------- aggregates without heap data (full domain)
    /// record { x: u8, y: u32 }: flat (i32, i32); memory x @0, y @4
    #[kani::proof]
    pub fn c05_record_unchanged_both_ways() {
        let (x, y): (u8, u32) = (kani::any(), kani::any());
        let (rx, ry): (u8, u32) = (kani::any(), kani::any());
        unsafe {
            RET_PT = (rx, ry);
            let ret = _export_echo_pt_cabi::<Impl>(x as i32, y as i32);
            kani::assert(CALLS == 1 && SEEN_PT == (x, y), "the record the host sent arrives unchanged");
            kani::assert(rd::<u8>(ret, 0) == rx && rd::<u32>(ret, 4) == ry, "the record the guest returned is stored at its canonical offsets");
        }
    }
    /// tuple<u8, u64>: flat (i32, i64); memory u8 @0, u64 @8
    #[kani::proof]
    pub fn c05_tuple_unchanged_both_ways() {
        let (a, b): (u8, u64) = (kani::any(), kani::any());
        let (ra, rb): (u8, u64) = (kani::any(), kani::any());
        unsafe {
            RET_TUPLE = (ra, rb);
            let ret = _export_echo_tuple_cabi::<Impl>(a as i32, b as i64);
            kani::assert(CALLS == 1 && SEEN_TUPLE == (a, b), "the tuple the host sent arrives unchanged");
            kani::assert(rd::<u8>(ret, 0) == ra && rd::<u64>(ret, 8) == rb, "the tuple the guest returned is stored at its canonical offsets");
        }
    }
    /// option<u32>: flat (disc, payload); memory disc u8 @0, payload @4
    #[kani::proof]
    pub fn c05_option_unchanged_both_ways() {
        let v: Option<u32> = kani::any();
        let r: Option<u32> = kani::any();
        unsafe {
            RET_OPT = r;
            let ret = match v {
                None => _export_echo_opt_cabi::<Impl>(0, 0),
                Some(x) => _export_echo_opt_cabi::<Impl>(1, x as i32),
            };
            kani::assert(CALLS == 1 && SEEN_OPT == v, "the option the host sent arrives unchanged");
            match r {
                None => kani::assert(rd::<u8>(ret, 0) == 0, "none is discriminant 0"),
                Some(x) => kani::assert(rd::<u8>(ret, 0) == 1 && rd::<u32>(ret, 4) == x, "some(x) is discriminant 1 with the payload at offset 4"),
            }
        }
    }
    /// result<u32, u8>: flat (disc, joined payload i32); memory disc @0, payload @4
    #[kani::proof]
    pub fn c05_result_unchanged_both_ways() {
        let v: Result<u32, u8> = kani::any();
        let r: Result<u32, u8> = kani::any();
        unsafe {
            RET_RES = r;
            let ret = match v {
                Ok(x) => _export_echo_res_cabi::<Impl>(0, x as i32),
                Err(e) => _export_echo_res_cabi::<Impl>(1, e as i32),
            };
            kani::assert(CALLS == 1 && SEEN_RES == v, "the result the host sent arrives unchanged");
            match r {
                Ok(x) => kani::assert(rd::<u8>(ret, 0) == 0 && rd::<u32>(ret, 4) == x, "ok(x) is discriminant 0 with the payload at offset 4"),
                Err(e) => kani::assert(rd::<u8>(ret, 0) == 1 && rd::<u8>(ret, 4) == e, "err(e) is discriminant 1 with the payload at offset 4"),
            }
        }
    }
    /// flags { r, w, x } (one byte, bit i = i-th flag) and enum { red, green, blue } (its case index)
    #[kani::proof]
    pub fn c05_flags_and_enum_unchanged_both_ways() {
        let f: u8 = kani::any();
        kani::assume(f < 8);
        let rf: u8 = kani::any();
        kani::assume(rf < 8);
        let c: u8 = kani::any();
        kani::assume(c < 3);
        let rc: u8 = kani::any();
        kani::assume(rc < 3);
        unsafe {
            RET_PERMS = rf;
            let r = _export_echo_perms_cabi::<Impl>(f as i32);
            kani::assert(SEEN_PERMS == f && r == rf as i32, "flags travel as their bit set");
            RET_COLOR = rc;
            let r = _export_echo_color_cabi::<Impl>(c as i32);
            kani::assert(SEEN_COLOR == c && r == rc as i32 && CALLS == 2, "an enum travels as its case index");
        }
    }
    /// variant { none, circle(u32), wide(u64), label(string) }, the three cases without heap data: flat (disc, joined
    /// 64-bit-or-pointer slot, length slot); memory disc u8 @0, payload @8
    #[kani::proof]
    pub fn c05_variant_numeric_cases_unchanged_both_ways() {
        let case: u8 = kani::any();
        kani::assume(case < 3);
        let payload: u64 = kani::any();
        let rcase: u8 = kani::any();
        kani::assume(rcase < 3);
        let rpayload: u64 = kani::any();
        // what the spec's lowering puts into the joined slot: circle's u32 zero-extended, wide's u64, none: zeros
        let slot: u64 = match case {
            0 => 0,
            1 => payload as u32 as u64,
            _ => payload,
        };
        unsafe {
            RET_SHAPE = (rcase, rpayload);
            let ret = _export_echo_shape_cabi::<Impl>(case as i32, core::mem::MaybeUninit::new(slot), 0);
            kani::assert(CALLS == 1 && SEEN_SHAPE == (case, slot), "the variant case and payload the host sent arrive unchanged");
            kani::assert(rd::<u8>(ret, 0) == rcase, "the returned case is stored as the discriminant");
            match rcase {
                0 => {}
                1 => kani::assert(rd::<u32>(ret, 8) == rpayload as u32, "circle's payload at the payload offset"),
                _ => kani::assert(rd::<u64>(ret, 8) == rpayload, "wide's payload at the payload offset"),
            }
            __post_return_echo_shape::<Impl>(ret);
        }
    }

    // ---------------------------------------------------------------------------- heap data (bounded lengths)
    /// a host-allocated buffer (what the host obtains from cabi_realloc) holding `n` given bytes
    unsafe fn host_buffer(bytes: &[u8; 2], n: usize, align: usize) -> *mut u8 {
        unsafe {
            if n == 0 {
                return align as *mut u8; // a zero-length list has no buffer: any aligned non-null pointer
            }
            let p = alloc_stub(Layout::from_size_align(n, align).unwrap());
            kani::assume(!p.is_null());
            let mut i = 0;
            while i < n {
                *p.add(i) = bytes[i];
                i += 1;
            }
            p
        }
    }
    fn ascii2() -> [u8; 2] {
        let b: [u8; 2] = kani::any();
        kani::assume(b[0] < 0x80 && b[1] < 0x80); // valid UTF-8 (the host never sends anything else)
        b
    }
    fn string_of(b: &[u8; 2], n: usize) -> String {
        let mut v: Vec<u8> = Vec::new();
        if n >= 1 {
            v.push(b[0]);
        }
        if n >= 2 {
            v.push(b[1]);
        }
        unsafe { String::from_utf8_unchecked(v) } // ASCII by construction
    }
    /// std's UTF-8 validation is trusted, not verified here (its word-at-a-time loop is what CBMC cannot get through):
    /// the harness only ever sends valid UTF-8 (ASCII), for which `String::from_utf8` is `Ok` of the same bytes.
    fn from_utf8_stub(v: Vec<u8>) -> Result<String, alloc::string::FromUtf8Error> {
        Ok(unsafe { String::from_utf8_unchecked(v) })
    }

    #[kani::proof]
    #[kani::unwind(4)]
    #[kani::stub(alloc::alloc::alloc, alloc_stub)]
    #[kani::stub(alloc::alloc::dealloc, dealloc_stub)]
    #[kani::stub(alloc::alloc::realloc, realloc_stub)]
    #[kani::stub(alloc::alloc::dealloc_nonnull, dealloc_nonnull_stub)]
    #[kani::stub(alloc::alloc::realloc_nonnull, realloc_nonnull_stub)]
    #[kani::stub(alloc::string::String::from_utf8, from_utf8_stub)]
    pub fn c05_list_u8_unchanged_both_ways() {
        body_list_u8(true, false);
    }
    #[kani::proof]
    #[kani::unwind(4)]
    #[kani::stub(alloc::alloc::alloc, alloc_stub)]
    #[kani::stub(alloc::alloc::dealloc, dealloc_stub)]
    #[kani::stub(alloc::alloc::realloc, realloc_stub)]
    #[kani::stub(alloc::alloc::dealloc_nonnull, dealloc_nonnull_stub)]
    #[kani::stub(alloc::alloc::realloc_nonnull, realloc_nonnull_stub)]
    #[kani::stub(alloc::string::String::from_utf8, from_utf8_stub)]
    pub fn c06_list_u8_memory_balanced() {
        body_list_u8(false, true);
    }

    /// list<u8> parameter and result, lengths 0..=2
    fn body_list_u8(values: bool, memory: bool) {
        let n: usize = kani::any();
        kani::assume(n <= 2);
        let m: usize = kani::any();
        kani::assume(m <= 2);
        let inb: [u8; 2] = kani::any();
        let outb: [u8; 2] = kani::any();
        unsafe {
            let mut r = Vec::new();
            if m >= 1 {
                r.push(outb[0]);
            }
            if m >= 2 {
                r.push(outb[1]);
            }
            RET_BYTES = Some(r);
            let p = host_buffer(&inb, n, 1);
            let ret = _export_echo_bytes_cabi::<Impl>(p, n);
            let seen = SEEN_BYTES.take().unwrap();
            if values { kani::assert(CALLS == 1 && seen.len() == n && (n < 1 || seen[0] == inb[0]) && (n < 2 || seen[1] == inb[1]), "the bytes the host sent arrive unchanged, in order"); }
            drop(seen);
            let (rp, rl): (*mut u8, usize) = (rd(ret, 0), rd(ret, P));
            if values { kani::assert(rl == m && (m < 1 || *rp == outb[0]) && (m < 2 || *rp.add(1) == outb[1]), "the bytes the guest returned reach the host unchanged, in order"); }
            __post_return_echo_bytes::<Impl>(ret);
            kani::assert(!LEDGER_FULL, "HARNESS-LIMIT: allocation ledger full");
            if memory { kani::assert(!BAD_FREE, "every block is freed at most once, with the size and alignment it was allocated with"); }
            if memory { kani::assert(live_blocks() == 0, "nothing is left allocated after post-return"); }
        }
        kani::cover!(n == 2 && m == 1);
    }

    #[kani::proof]
    #[kani::unwind(4)]
    #[kani::stub(alloc::alloc::alloc, alloc_stub)]
    #[kani::stub(alloc::alloc::dealloc, dealloc_stub)]
    #[kani::stub(alloc::alloc::realloc, realloc_stub)]
    #[kani::stub(alloc::alloc::dealloc_nonnull, dealloc_nonnull_stub)]
    #[kani::stub(alloc::alloc::realloc_nonnull, realloc_nonnull_stub)]
    #[kani::stub(alloc::string::String::from_utf8, from_utf8_stub)]
    pub fn c05_string_unchanged_both_ways() {
        body_string(true, false);
    }
    #[kani::proof]
    #[kani::unwind(4)]
    #[kani::stub(alloc::alloc::alloc, alloc_stub)]
    #[kani::stub(alloc::alloc::dealloc, dealloc_stub)]
    #[kani::stub(alloc::alloc::realloc, realloc_stub)]
    #[kani::stub(alloc::alloc::dealloc_nonnull, dealloc_nonnull_stub)]
    #[kani::stub(alloc::alloc::realloc_nonnull, realloc_nonnull_stub)]
    #[kani::stub(alloc::string::String::from_utf8, from_utf8_stub)]
    pub fn c06_string_memory_balanced() {
        body_string(false, true);
    }

    /// string parameter and result, lengths 0..=2: the bytes arrive unchanged; the host's buffer is taken over exactly
    /// once; the result buffer holds exactly the returned bytes; after post-return nothing is left allocated and nothing
    /// was freed twice or with a foreign layout.
    fn body_string(values: bool, memory: bool) {
        let n: usize = kani::any();
        kani::assume(n <= 2);
        let m: usize = kani::any();
        kani::assume(m <= 2);
        let inb = ascii2();
        let outb = ascii2();
        unsafe {
            RET_STR = Some(string_of(&outb, m));
            let p = host_buffer(&inb, n, 1);
            let ret = _export_echo_str_cabi::<Impl>(p, n);
            if values { kani::assert(CALLS == 1, "the user function runs once"); }
            let seen = SEEN_STR.take().unwrap();
            if values { kani::assert(seen.len() == n && (n < 1 || seen.as_bytes()[0] == inb[0]) && (n < 2 || seen.as_bytes()[1] == inb[1]), "the string the host sent arrives unchanged"); }
            drop(seen); // the user is done with its argument: the host's buffer is released here, exactly once
            let (rp, rl): (*mut u8, usize) = (rd(ret, 0), rd(ret, P));
            if values { kani::assert(rl == m && (m < 1 || *rp == outb[0]) && (m < 2 || *rp.add(1) == outb[1]), "the string the guest returned reaches the host unchanged"); }
            __post_return_echo_str::<Impl>(ret);
            kani::assert(!LEDGER_FULL, "HARNESS-LIMIT: allocation ledger full");
            if memory { kani::assert(!BAD_FREE, "every block is freed at most once, with the size and alignment it was allocated with"); }
            if memory { kani::assert(live_blocks() == 0, "nothing is left allocated after post-return"); }
        }
        kani::cover!(n == 2 && m == 0);
        kani::cover!(n == 0 && m == 2);
    }

    #[kani::proof]
    #[kani::unwind(4)]
    #[kani::stub(alloc::alloc::alloc, alloc_stub)]
    #[kani::stub(alloc::alloc::dealloc, dealloc_stub)]
    #[kani::stub(alloc::alloc::realloc, realloc_stub)]
    #[kani::stub(alloc::alloc::dealloc_nonnull, dealloc_nonnull_stub)]
    #[kani::stub(alloc::alloc::realloc_nonnull, realloc_nonnull_stub)]
    #[kani::stub(alloc::string::String::from_utf8, from_utf8_stub)]
    pub fn c05_list_u32_unchanged_both_ways() {
        body_list_u32(true, false);
    }
    #[kani::proof]
    #[kani::unwind(4)]
    #[kani::stub(alloc::alloc::alloc, alloc_stub)]
    #[kani::stub(alloc::alloc::dealloc, dealloc_stub)]
    #[kani::stub(alloc::alloc::realloc, realloc_stub)]
    #[kani::stub(alloc::alloc::dealloc_nonnull, dealloc_nonnull_stub)]
    #[kani::stub(alloc::alloc::realloc_nonnull, realloc_nonnull_stub)]
    #[kani::stub(alloc::string::String::from_utf8, from_utf8_stub)]
    pub fn c06_list_u32_memory_balanced() {
        body_list_u32(false, true);
    }

    /// list<u32> parameter and result, lengths 0..=2 (element size 4, alignment 4)
    fn body_list_u32(values: bool, memory: bool) {
        let n: usize = kani::any();
        kani::assume(n <= 2);
        let m: usize = kani::any();
        kani::assume(m <= 2);
        let inw: [u32; 2] = kani::any();
        let outw: [u32; 2] = kani::any();
        unsafe {
            let mut r = Vec::new();
            let mut i = 0;
            while i < m {
                r.push(outw[i]);
                i += 1;
            }
            RET_WORDS = Some(r);
            let p: *mut u8 = if n == 0 {
                4 as *mut u8
            } else {
                let p = alloc_stub(Layout::from_size_align(4 * n, 4).unwrap());
                kani::assume(!p.is_null());
                let mut i = 0;
                while i < n {
                    *p.cast::<u32>().add(i) = inw[i];
                    i += 1;
                }
                p
            };
            let ret = _export_echo_words_cabi::<Impl>(p, n);
            let seen = SEEN_WORDS.take().unwrap();
            if values { kani::assert(CALLS == 1 && seen.len() == n && (n < 1 || seen[0] == inw[0]) && (n < 2 || seen[1] == inw[1]), "the list the host sent arrives unchanged, in order"); }
            drop(seen);
            let (rp, rl): (*mut u8, usize) = (rd(ret, 0), rd(ret, P));
            if values { kani::assert(rl == m && (m < 1 || rd::<u32>(rp, 0) == outw[0]) && (m < 2 || rd::<u32>(rp, 4) == outw[1]), "the list the guest returned reaches the host unchanged, in order"); }
            __post_return_echo_words::<Impl>(ret);
            kani::assert(!LEDGER_FULL, "HARNESS-LIMIT: allocation ledger full");
            if memory { kani::assert(!BAD_FREE, "every block is freed at most once, with the size and alignment it was allocated with"); }
            if memory { kani::assert(live_blocks() == 0, "nothing is left allocated after post-return"); }
        }
    }

    #[kani::proof]
    #[kani::unwind(4)]
    #[kani::stub(alloc::alloc::alloc, alloc_stub)]
    #[kani::stub(alloc::alloc::dealloc, dealloc_stub)]
    #[kani::stub(alloc::alloc::realloc, realloc_stub)]
    #[kani::stub(alloc::alloc::dealloc_nonnull, dealloc_nonnull_stub)]
    #[kani::stub(alloc::alloc::realloc_nonnull, realloc_nonnull_stub)]
    #[kani::stub(alloc::string::String::from_utf8, from_utf8_stub)]
    pub fn c05_variant_string_unchanged_both_ways() {
        body_variant_string(true, false);
    }
    #[kani::proof]
    #[kani::unwind(4)]
    #[kani::stub(alloc::alloc::alloc, alloc_stub)]
    #[kani::stub(alloc::alloc::dealloc, dealloc_stub)]
    #[kani::stub(alloc::alloc::realloc, realloc_stub)]
    #[kani::stub(alloc::alloc::dealloc_nonnull, dealloc_nonnull_stub)]
    #[kani::stub(alloc::alloc::realloc_nonnull, realloc_nonnull_stub)]
    #[kani::stub(alloc::string::String::from_utf8, from_utf8_stub)]
    pub fn c06_variant_string_memory_balanced() {
        body_variant_string(false, true);
    }

    /// the variant's string case: a heap payload inside the joined slot
    fn body_variant_string(values: bool, memory: bool) {
        let n: usize = kani::any();
        kani::assume(n <= 2);
        let m: usize = kani::any();
        kani::assume(m <= 2);
        let inb = ascii2();
        let outb = ascii2();
        let ret_is_label: bool = kani::any();
        unsafe {
            if ret_is_label {
                RET_SHAPE = (3, 0);
                RET_LABEL = Some(string_of(&outb, m));
            } else {
                RET_SHAPE = (1, 9);
            }
            let p = host_buffer(&inb, n, 1);
            let mut slot = core::mem::MaybeUninit::<u64>::new(0);
            slot.as_mut_ptr().cast::<*mut u8>().write(p); // a pointer in the joined slot
            let ret = _export_echo_shape_cabi::<Impl>(3, slot, n);
            let seen = SEEN_LABEL.take().unwrap();
            if values { kani::assert(CALLS == 1 && SEEN_SHAPE.0 == 3 && seen.len() == n && (n < 1 || seen.as_bytes()[0] == inb[0]) && (n < 2 || seen.as_bytes()[1] == inb[1]), "the label the host sent arrives unchanged"); }
            drop(seen);
            if ret_is_label {
                let (rp, rl): (*mut u8, usize) = (rd(ret, 8), rd(ret, 8 + P));
                if values { kani::assert(rd::<u8>(ret, 0) == 3 && rl == m && (m < 1 || *rp == outb[0]) && (m < 2 || *rp.add(1) == outb[1]), "the label the guest returned reaches the host unchanged"); }
            } else {
                if values { kani::assert(rd::<u8>(ret, 0) == 1 && rd::<u32>(ret, 8) == 9, "the numeric case is stored"); }
            }
            __post_return_echo_shape::<Impl>(ret);
            kani::assert(!LEDGER_FULL, "HARNESS-LIMIT: allocation ledger full");
            if memory { kani::assert(!BAD_FREE, "every block is freed at most once, with the size and alignment it was allocated with"); }
            if memory { kani::assert(live_blocks() == 0, "nothing is left allocated after post-return (the post-return frees a buffer exactly when the result holds one)"); }
        }
        kani::cover!(ret_is_label && m == 2);
        kani::cover!(!ret_is_label && n == 2);
    }

    /// list<string> with at most one element of at most one byte: the element records are read out of the host's list
    /// buffer (which is then freed by the guest), each element buffer is taken over once; the result list buffer and its
    /// element buffer are freed by post-return.
    fn body_list_of_strings(values: bool, memory: bool, n: usize, m: usize) {
        // list lengths fixed per harness (see body_entries); element strings of symbolic length <= 1 and symbolic content
        let inlen: usize = kani::any();
        kani::assume(inlen <= 1);
        let outlen: usize = kani::any();
        kani::assume(outlen <= 1);
        let inb = ascii2();
        let outb = ascii2();
        unsafe {
            let mut r: Vec<String> = Vec::new();
            let mut j = 0;
            while j < m {
                r.push(string_of(&outb, outlen));
                j += 1;
            }
            RET_STRS = Some(r);
            // the host lowers list<string>: one (ptr, len) record per element in a buffer aligned to the pointer size
            let list: *mut u8 = if n == 0 {
                P as *mut u8
            } else {
                let l = alloc_stub(Layout::from_size_align(2 * P * n, P).unwrap());
                kani::assume(!l.is_null());
                let mut i = 0;
                while i < n {
                    let e = host_buffer(&inb, inlen, 1);
                    l.add(2 * P * i).cast::<*mut u8>().write(e);
                    l.add(2 * P * i + P).cast::<usize>().write(inlen);
                    i += 1;
                }
                l
            };
            let ret = _export_echo_strs_cabi::<Impl>(list, n);
            let seen = SEEN_STRS.take().unwrap();
            if values {
                kani::assert(CALLS == 1 && seen.len() == n, "the list of strings the host sent arrives with its length");
                let mut i = 0;
                while i < n {
                    kani::assert(seen[i].len() == inlen && (inlen < 1 || seen[i].as_bytes()[0] == inb[0]), "each string the host sent arrives unchanged");
                    i += 1;
                }
            }
            drop(seen);
            let (rp, rl): (*mut u8, usize) = (rd(ret, 0), rd(ret, P));
            if values {
                kani::assert(rl == m, "the returned list has the returned length");
                let mut j = 0;
                while j < m {
                    let (ep, el): (*mut u8, usize) = (rd(rp, 2 * P * j), rd(rp, 2 * P * j + P));
                    kani::assert(el == outlen && (outlen < 1 || *ep == outb[0]), "each returned element reaches the host unchanged");
                    j += 1;
                }
            }
            __post_return_echo_strs::<Impl>(ret);
            kani::assert(!LEDGER_FULL, "HARNESS-LIMIT: allocation ledger full");
            if memory { kani::assert(!BAD_FREE, "every block is freed at most once, with the size and alignment it was allocated with"); }
            if memory { kani::assert(live_blocks() == 0, "nothing is left allocated after post-return"); }
        }
        kani::cover!(inlen == 1 && outlen == 1);
        kani::cover!(inlen == 0 && outlen == 0);
    }
    #[kani::proof]
    #[kani::unwind(4)]
    #[kani::stub(alloc::alloc::alloc, alloc_stub)]
    #[kani::stub(alloc::alloc::dealloc, dealloc_stub)]
    #[kani::stub(alloc::alloc::realloc, realloc_stub)]
    #[kani::stub(alloc::alloc::dealloc_nonnull, dealloc_nonnull_stub)]
    #[kani::stub(alloc::alloc::realloc_nonnull, realloc_nonnull_stub)]
    #[kani::stub(alloc::string::String::from_utf8, from_utf8_stub)]
    pub fn c05_list_of_strings_result_len0() {
        body_list_of_strings(true, false, 0, 0);
    }
    #[kani::proof]
    #[kani::unwind(4)]
    #[kani::stub(alloc::alloc::alloc, alloc_stub)]
    #[kani::stub(alloc::alloc::dealloc, dealloc_stub)]
    #[kani::stub(alloc::alloc::realloc, realloc_stub)]
    #[kani::stub(alloc::alloc::dealloc_nonnull, dealloc_nonnull_stub)]
    #[kani::stub(alloc::alloc::realloc_nonnull, realloc_nonnull_stub)]
    #[kani::stub(alloc::string::String::from_utf8, from_utf8_stub)]
    pub fn c05_list_of_strings_result_len1() {
        body_list_of_strings(true, false, 0, 1);
    }
    #[kani::proof]
    #[kani::unwind(4)]
    #[kani::stub(alloc::alloc::alloc, alloc_stub)]
    #[kani::stub(alloc::alloc::dealloc, dealloc_stub)]
    #[kani::stub(alloc::alloc::realloc, realloc_stub)]
    #[kani::stub(alloc::alloc::dealloc_nonnull, dealloc_nonnull_stub)]
    #[kani::stub(alloc::alloc::realloc_nonnull, realloc_nonnull_stub)]
    #[kani::stub(alloc::string::String::from_utf8, from_utf8_stub)]
    pub fn c05_list_of_strings_result_len2() {
        body_list_of_strings(true, false, 0, 2);
    }
    #[kani::proof]
    #[kani::unwind(4)]
    #[kani::stub(alloc::alloc::alloc, alloc_stub)]
    #[kani::stub(alloc::alloc::dealloc, dealloc_stub)]
    #[kani::stub(alloc::alloc::realloc, realloc_stub)]
    #[kani::stub(alloc::alloc::dealloc_nonnull, dealloc_nonnull_stub)]
    #[kani::stub(alloc::alloc::realloc_nonnull, realloc_nonnull_stub)]
    #[kani::stub(alloc::string::String::from_utf8, from_utf8_stub)]
    pub fn c05_list_of_strings_param_len1() {
        body_list_of_strings(true, false, 1, 0);
    }
    #[kani::proof]
    #[kani::unwind(4)]
    #[kani::stub(alloc::alloc::alloc, alloc_stub)]
    #[kani::stub(alloc::alloc::dealloc, dealloc_stub)]
    #[kani::stub(alloc::alloc::realloc, realloc_stub)]
    #[kani::stub(alloc::alloc::dealloc_nonnull, dealloc_nonnull_stub)]
    #[kani::stub(alloc::alloc::realloc_nonnull, realloc_nonnull_stub)]
    #[kani::stub(alloc::string::String::from_utf8, from_utf8_stub)]
    pub fn c05_list_of_strings_param_len2() {
        body_list_of_strings(true, false, 2, 0);
    }
    #[kani::proof]
    #[kani::unwind(4)]
    #[kani::stub(alloc::alloc::alloc, alloc_stub)]
    #[kani::stub(alloc::alloc::dealloc, dealloc_stub)]
    #[kani::stub(alloc::alloc::realloc, realloc_stub)]
    #[kani::stub(alloc::alloc::dealloc_nonnull, dealloc_nonnull_stub)]
    #[kani::stub(alloc::alloc::realloc_nonnull, realloc_nonnull_stub)]
    #[kani::stub(alloc::string::String::from_utf8, from_utf8_stub)]
    pub fn c06_list_of_strings_result_len0() {
        body_list_of_strings(false, true, 0, 0);
    }
    #[kani::proof]
    #[kani::unwind(4)]
    #[kani::stub(alloc::alloc::alloc, alloc_stub)]
    #[kani::stub(alloc::alloc::dealloc, dealloc_stub)]
    #[kani::stub(alloc::alloc::realloc, realloc_stub)]
    #[kani::stub(alloc::alloc::dealloc_nonnull, dealloc_nonnull_stub)]
    #[kani::stub(alloc::alloc::realloc_nonnull, realloc_nonnull_stub)]
    #[kani::stub(alloc::string::String::from_utf8, from_utf8_stub)]
    pub fn c06_list_of_strings_result_len1() {
        body_list_of_strings(false, true, 0, 1);
    }
    #[kani::proof]
    #[kani::unwind(4)]
    #[kani::stub(alloc::alloc::alloc, alloc_stub)]
    #[kani::stub(alloc::alloc::dealloc, dealloc_stub)]
    #[kani::stub(alloc::alloc::realloc, realloc_stub)]
    #[kani::stub(alloc::alloc::dealloc_nonnull, dealloc_nonnull_stub)]
    #[kani::stub(alloc::alloc::realloc_nonnull, realloc_nonnull_stub)]
    #[kani::stub(alloc::string::String::from_utf8, from_utf8_stub)]
    pub fn c06_list_of_strings_result_len2() {
        body_list_of_strings(false, true, 0, 2);
    }
    #[kani::proof]
    #[kani::unwind(4)]
    #[kani::stub(alloc::alloc::alloc, alloc_stub)]
    #[kani::stub(alloc::alloc::dealloc, dealloc_stub)]
    #[kani::stub(alloc::alloc::realloc, realloc_stub)]
    #[kani::stub(alloc::alloc::dealloc_nonnull, dealloc_nonnull_stub)]
    #[kani::stub(alloc::alloc::realloc_nonnull, realloc_nonnull_stub)]
    #[kani::stub(alloc::string::String::from_utf8, from_utf8_stub)]
    pub fn c06_list_of_strings_param_len1() {
        body_list_of_strings(false, true, 1, 0);
    }
    #[kani::proof]
    #[kani::unwind(4)]
    #[kani::stub(alloc::alloc::alloc, alloc_stub)]
    #[kani::stub(alloc::alloc::dealloc, dealloc_stub)]
    #[kani::stub(alloc::alloc::realloc, realloc_stub)]
    #[kani::stub(alloc::alloc::dealloc_nonnull, dealloc_nonnull_stub)]
    #[kani::stub(alloc::alloc::realloc_nonnull, realloc_nonnull_stub)]
    #[kani::stub(alloc::string::String::from_utf8, from_utf8_stub)]
    pub fn c06_list_of_strings_param_len2() {
        body_list_of_strings(false, true, 2, 0);
    }

    /// list<tuple<u8, u32, u8>>, lengths 0..=2: a list whose element is a tuple is NOT a canonical list for Rust (rustc lays a
    /// tuple out as it likes: here (u32, u8, u8), 8 bytes), so each element must be converted; canonical element layout:
    /// u8 @0, u32 @4, u8 @8, size 12, alignment 4
    fn body_list_of_pairs(values: bool, memory: bool) {
        let n: usize = kani::any();
        kani::assume(n <= 2);
        let m: usize = kani::any();
        kani::assume(m <= 2);
        let ina: [u8; 2] = kani::any();
        let inb: [u32; 2] = kani::any();
        let inc: [u8; 2] = kani::any();
        let outa: [u8; 2] = kani::any();
        let outb: [u32; 2] = kani::any();
        let outc: [u8; 2] = kani::any();
        unsafe {
            let mut r: Vec<(u8, u32, u8)> = Vec::new();
            if m >= 1 { r.push((outa[0], outb[0], outc[0])); }
            if m >= 2 { r.push((outa[1], outb[1], outc[1])); }
            RET_PAIRS = Some(r);
            let p: *mut u8 = if n == 0 { 4 as *mut u8 } else {
                let p = alloc_stub(Layout::from_size_align(12 * n, 4).unwrap());
                kani::assume(!p.is_null());
                *p = ina[0];
                p.add(4).cast::<u32>().write(inb[0]);
                *p.add(8) = inc[0];
                if n == 2 {
                    *p.add(12) = ina[1];
                    p.add(16).cast::<u32>().write(inb[1]);
                    *p.add(20) = inc[1];
                }
                p
            };
            let ret = _export_echo_pairs_cabi::<Impl>(p, n);
            let seen = SEEN_PAIRS.take().unwrap();
            if values { kani::assert(CALLS == 1 && seen.len() == n && (n < 1 || seen[0] == (ina[0], inb[0], inc[0])) && (n < 2 || seen[1] == (ina[1], inb[1], inc[1])), "the list of tuples the host sent arrives unchanged, element by element"); }
            drop(seen);
            let (rp, rl): (*mut u8, usize) = (rd(ret, 0), rd(ret, P));
            if values {
                kani::assert(rl == m, "the returned list has the returned length");
                if m >= 1 { kani::assert(rd::<u8>(rp, 0) == outa[0] && rd::<u32>(rp, 4) == outb[0] && rd::<u8>(rp, 8) == outc[0], "element 0 is stored in the canonical element layout"); }
                if m >= 2 { kani::assert(rd::<u8>(rp, 12) == outa[1] && rd::<u32>(rp, 16) == outb[1] && rd::<u8>(rp, 20) == outc[1], "element 1 is stored in the canonical element layout"); }
            }
            __post_return_echo_pairs::<Impl>(ret);
            kani::assert(!LEDGER_FULL, "HARNESS-LIMIT: allocation ledger full");
            if memory { kani::assert(!BAD_FREE, "every block is freed at most once, with the size and alignment it was allocated with"); }
            if memory { kani::assert(live_blocks() == 0, "nothing is left allocated after post-return"); }
        }
        kani::cover!(n == 2 && m == 2);
    }
    #[kani::proof]
    #[kani::unwind(4)]
    #[kani::stub(alloc::alloc::alloc, alloc_stub)]
    #[kani::stub(alloc::alloc::dealloc, dealloc_stub)]
    #[kani::stub(alloc::alloc::realloc, realloc_stub)]
    #[kani::stub(alloc::alloc::dealloc_nonnull, dealloc_nonnull_stub)]
    #[kani::stub(alloc::alloc::realloc_nonnull, realloc_nonnull_stub)]
    pub fn c05_list_of_pairs_unchanged_both_ways() {
        body_list_of_pairs(true, false);
    }
    #[kani::proof]
    #[kani::unwind(4)]
    #[kani::stub(alloc::alloc::alloc, alloc_stub)]
    #[kani::stub(alloc::alloc::dealloc, dealloc_stub)]
    #[kani::stub(alloc::alloc::realloc, realloc_stub)]
    #[kani::stub(alloc::alloc::dealloc_nonnull, dealloc_nonnull_stub)]
    #[kani::stub(alloc::alloc::realloc_nonnull, realloc_nonnull_stub)]
    pub fn c06_list_of_pairs_memory_balanced() {
        body_list_of_pairs(false, true);
    }

    /// import with option<list<string>>: the (ptr, len) records are written into scratch memory inside the `Some` arm; that
    /// buffer is still allocated while the callee runs, holds the element records, and is freed exactly once after the call
    #[kani::proof]
    #[kani::unwind(18)] // the scratch buffer (2 pointers = 16 bytes) is poisoned byte by byte when freed
    #[kani::stub(alloc::alloc::alloc, alloc_stub)]
    #[kani::stub(alloc::alloc::dealloc, dealloc_stub)]
    #[kani::stub(alloc::alloc::realloc, realloc_stub)]
    #[kani::stub(alloc::alloc::dealloc_nonnull, dealloc_nonnull_stub)]
    #[kani::stub(alloc::alloc::realloc_nonnull, realloc_nonnull_stub)]
    pub fn c06_import_nested_list_scratch_alive_during_call_freed_once() {
        let some: bool = kani::any();
        let b = ascii2();
        unsafe {
            let elems = [string_of(&b, 1)];
            let before = live_blocks();
            let r = if some { verif::val::sinks::nested_list(Some(&elems)) } else { verif::val::sinks::nested_list(None) };
            kani::assert(SINK_CALLS == 1 && r == some as u32, "exactly one core call");
            if some {
                kani::assert(SINK_LEN == 1 && SINK_RECORDS_LIVE, "the scratch buffer holding the element records is still allocated while the callee runs");
                kani::assert(SINK_ELEM0 == (elems[0].as_ptr() as usize, 1) && SINK_FIRST_BYTE == b[0], "the callee reads the caller's string through the record");
            }
            kani::assert(!LEDGER_FULL, "HARNESS-LIMIT: allocation ledger full");
            kani::assert(!BAD_FREE, "the scratch buffer is freed at most once, with its own layout");
            kani::assert(live_blocks() == before, "after the call only the caller's own data is allocated: the scratch buffer was freed");
        }
        kani::cover!(some);
    }

    /// record { id: u16, name: string, tags: list<u8>, age: u8 }: heap data inside an aggregate, with padding around the scalars.
    /// flat: (i32 id, ptr, len, ptr, len, i32 age); memory: id @0, name @P / @2P, tags @3P / @4P, age @5P
    fn vec_of(b: &[u8; 2], n: usize) -> Vec<u8> {
        let mut v = Vec::new();
        if n >= 1 { v.push(b[0]); }
        if n >= 2 { v.push(b[1]); }
        v
    }
    fn body_person(values: bool, memory: bool) {
        let (n, t, m, u): (usize, usize, usize, usize) = (kani::any(), kani::any(), kani::any(), kani::any());
        kani::assume(n <= 1 && t <= 2 && m <= 1 && u <= 2);
        let (id, age, rid, rage): (u16, u8, u16, u8) = (kani::any(), kani::any(), kani::any(), kani::any());
        let nameb = ascii2();
        let tagb: [u8; 2] = kani::any();
        let rnameb = ascii2();
        let rtagb: [u8; 2] = kani::any();
        unsafe {
            RET_PERSON = Some(Person { id: rid, name: string_of(&rnameb, m), tags: vec_of(&rtagb, u), age: rage });
            let pn = host_buffer(&nameb, n, 1);
            let pt = host_buffer(&tagb, t, 1);
            let ret = _export_echo_person_cabi::<Impl>(id as i32, pn, n, pt, t, age as i32);
            let seen = SEEN_PERSON.take().unwrap();
            if values {
                kani::assert(CALLS == 1 && seen.id == id && seen.age == age, "the scalar fields arrive unchanged");
                kani::assert(seen.name.len() == n && (n < 1 || seen.name.as_bytes()[0] == nameb[0]), "the string field arrives unchanged");
                kani::assert(seen.tags.len() == t && (t < 1 || seen.tags[0] == tagb[0]) && (t < 2 || seen.tags[1] == tagb[1]), "the list field arrives unchanged");
            }
            drop(seen);
            if values {
                kani::assert(rd::<u16>(ret, 0) == rid && rd::<u8>(ret, 5 * P) == rage, "the returned scalar fields sit at their canonical offsets");
                let (np, nl): (*mut u8, usize) = (rd(ret, P), rd(ret, 2 * P));
                kani::assert(nl == m && (m < 1 || *np == rnameb[0]), "the returned string field reaches the host unchanged");
                let (tp, tl): (*mut u8, usize) = (rd(ret, 3 * P), rd(ret, 4 * P));
                kani::assert(tl == u && (u < 1 || *tp == rtagb[0]) && (u < 2 || *tp.add(1) == rtagb[1]), "the returned list field reaches the host unchanged");
            }
            __post_return_echo_person::<Impl>(ret);
            kani::assert(!LEDGER_FULL, "HARNESS-LIMIT: allocation ledger full");
            if memory { kani::assert(!BAD_FREE, "every block is freed at most once, with the size and alignment it was allocated with"); }
            if memory { kani::assert(live_blocks() == 0, "nothing is left allocated after post-return (both buffers of the record are released)"); }
        }
        kani::cover!(n == 1 && t == 2 && m == 1 && u == 2);
    }
    #[kani::proof]
    #[kani::unwind(4)]
    #[kani::stub(alloc::alloc::alloc, alloc_stub)]
    #[kani::stub(alloc::alloc::dealloc, dealloc_stub)]
    #[kani::stub(alloc::alloc::realloc, realloc_stub)]
    #[kani::stub(alloc::alloc::dealloc_nonnull, dealloc_nonnull_stub)]
    #[kani::stub(alloc::alloc::realloc_nonnull, realloc_nonnull_stub)]
    #[kani::stub(alloc::string::String::from_utf8, from_utf8_stub)]
    pub fn c05_record_with_heap_fields_unchanged_both_ways() {
        body_person(true, false);
    }
    #[kani::proof]
    #[kani::unwind(4)]
    #[kani::stub(alloc::alloc::alloc, alloc_stub)]
    #[kani::stub(alloc::alloc::dealloc, dealloc_stub)]
    #[kani::stub(alloc::alloc::realloc, realloc_stub)]
    #[kani::stub(alloc::alloc::dealloc_nonnull, dealloc_nonnull_stub)]
    #[kani::stub(alloc::alloc::realloc_nonnull, realloc_nonnull_stub)]
    #[kani::stub(alloc::string::String::from_utf8, from_utf8_stub)]
    pub fn c06_record_with_heap_fields_memory_balanced() {
        body_person(false, true);
    }

    /// result<string, u32>: flat (disc, joined pointer-or-i32 slot, len); memory disc @0, payload @P
    fn body_rstr(values: bool, memory: bool) {
        let in_ok: bool = kani::any();
        let out_ok: bool = kani::any();
        let (n, m): (usize, usize) = (kani::any(), kani::any());
        kani::assume(n <= 2 && m <= 2);
        let (e, re): (u32, u32) = (kani::any(), kani::any());
        let inb = ascii2();
        let outb = ascii2();
        unsafe {
            RET_RSTR = Some(if out_ok { Ok(string_of(&outb, m)) } else { Err(re) });
            let ret = if in_ok {
                let p = host_buffer(&inb, n, 1);
                _export_echo_rstr_cabi::<Impl>(0, p, n)
            } else {
                // the error payload travels in the slot it shares with the pointer: an i32 value in a pointer-typed slot
                _export_echo_rstr_cabi::<Impl>(1, e as usize as *mut u8, 0)
            };
            let seen = SEEN_RSTR.take().unwrap();
            if values {
                match &seen {
                    Ok(s) => kani::assert(in_ok && s.len() == n && (n < 1 || s.as_bytes()[0] == inb[0]) && (n < 2 || s.as_bytes()[1] == inb[1]), "ok(string) arrives unchanged"),
                    Err(x) => kani::assert(!in_ok && *x == e, "err(u32) arrives unchanged through the joined slot"),
                }
            }
            drop(seen);
            if values {
                if out_ok {
                    let (rp, rl): (*mut u8, usize) = (rd(ret, P), rd(ret, 2 * P));
                    kani::assert(rd::<u8>(ret, 0) == 0 && rl == m && (m < 1 || *rp == outb[0]) && (m < 2 || *rp.add(1) == outb[1]), "ok(string) reaches the host unchanged");
                } else {
                    kani::assert(rd::<u8>(ret, 0) == 1 && rd::<u32>(ret, P) == re, "err(u32) is stored at the payload offset");
                }
            }
            __post_return_echo_rstr::<Impl>(ret);
            kani::assert(!LEDGER_FULL, "HARNESS-LIMIT: allocation ledger full");
            if memory { kani::assert(!BAD_FREE, "every block is freed at most once, with the size and alignment it was allocated with"); }
            if memory { kani::assert(live_blocks() == 0, "nothing is left allocated after post-return (a buffer is freed exactly when the result is ok)"); }
        }
        kani::cover!(in_ok && !out_ok);
        kani::cover!(!in_ok && out_ok && m == 2);
    }
    #[kani::proof]
    #[kani::unwind(4)]
    #[kani::stub(alloc::alloc::alloc, alloc_stub)]
    #[kani::stub(alloc::alloc::dealloc, dealloc_stub)]
    #[kani::stub(alloc::alloc::realloc, realloc_stub)]
    #[kani::stub(alloc::alloc::dealloc_nonnull, dealloc_nonnull_stub)]
    #[kani::stub(alloc::alloc::realloc_nonnull, realloc_nonnull_stub)]
    #[kani::stub(alloc::string::String::from_utf8, from_utf8_stub)]
    pub fn c05_result_with_string_unchanged_both_ways() {
        body_rstr(true, false);
    }
    #[kani::proof]
    #[kani::unwind(4)]
    #[kani::stub(alloc::alloc::alloc, alloc_stub)]
    #[kani::stub(alloc::alloc::dealloc, dealloc_stub)]
    #[kani::stub(alloc::alloc::realloc, realloc_stub)]
    #[kani::stub(alloc::alloc::dealloc_nonnull, dealloc_nonnull_stub)]
    #[kani::stub(alloc::alloc::realloc_nonnull, realloc_nonnull_stub)]
    #[kani::stub(alloc::string::String::from_utf8, from_utf8_stub)]
    pub fn c06_result_with_string_memory_balanced() {
        body_rstr(false, true);
    }

    /// list<record { id: u64, name: string }>: an element-wise list whose element size mixes a byte part and a pointer part
    /// (8 + 2P, alignment 8): id @0, name pointer @8, name length @8+P.  The list lengths are FIXED per harness (a symbolic length
    /// makes `Vec<Entry>`'s iterator and drop glue several hundred seconds of CBMC; fixed lengths take seconds): n elements sent,
    /// m elements returned; ids and string contents stay symbolic.
    const ENTRY: usize = 8 + 2 * P;
    fn body_entries(values: bool, memory: bool, n: usize, m: usize) {
        let (inlen, outlen): (usize, usize) = (kani::any(), kani::any());
        kani::assume(inlen <= 1 && outlen <= 1);
        let (id, rid): (u64, u64) = (kani::any(), kani::any());
        let inb = ascii2();
        let outb = ascii2();
        unsafe {
            let mut r: Vec<Entry> = Vec::new();
            let mut j = 0;
            while j < m {
                r.push(Entry { id: rid.wrapping_add(j as u64), name: string_of(&outb, outlen) });
                j += 1;
            }
            RET_ENTRIES = Some(r);
            let list: *mut u8 = if n == 0 {
                8 as *mut u8
            } else {
                let l = alloc_stub(Layout::from_size_align(ENTRY * n, 8).unwrap());
                kani::assume(!l.is_null());
                let mut i = 0;
                while i < n {
                    let e = host_buffer(&inb, inlen, 1);
                    l.add(ENTRY * i).cast::<u64>().write(id.wrapping_add(i as u64));
                    l.add(ENTRY * i + 8).cast::<*mut u8>().write(e);
                    l.add(ENTRY * i + 8 + P).cast::<usize>().write(inlen);
                    i += 1;
                }
                l
            };
            let ret = _export_echo_entries_cabi::<Impl>(list, n);
            let seen = SEEN_ENTRIES.take().unwrap();
            if values {
                kani::assert(CALLS == 1 && seen.len() == n, "the list the host sent arrives with its length");
                let mut i = 0;
                while i < n {
                    kani::assert(seen[i].id == id.wrapping_add(i as u64) && seen[i].name.len() == inlen && (inlen < 1 || seen[i].name.as_bytes()[0] == inb[0]), "each element the host sent arrives unchanged, in order");
                    i += 1;
                }
            }
            drop(seen);
            let (rp, rl): (*mut u8, usize) = (rd(ret, 0), rd(ret, P));
            if values {
                kani::assert(rl == m, "the returned list has the returned length");
                let mut j = 0;
                while j < m {
                    let (eid, ep, el): (u64, *mut u8, usize) = (rd(rp, ENTRY * j), rd(rp, ENTRY * j + 8), rd(rp, ENTRY * j + 8 + P));
                    kani::assert(eid == rid.wrapping_add(j as u64) && el == outlen && (outlen < 1 || *ep == outb[0]), "each returned element sits at the canonical stride and reaches the host unchanged");
                    j += 1;
                }
            }
            __post_return_echo_entries::<Impl>(ret);
            kani::assert(!LEDGER_FULL, "HARNESS-LIMIT: allocation ledger full");
            if memory { kani::assert(!BAD_FREE, "every block is freed at most once, with the size and alignment it was allocated with"); }
            if memory { kani::assert(live_blocks() == 0, "nothing is left allocated after post-return"); }
        }
        kani::cover!(inlen == 1 && outlen == 1);
        kani::cover!(inlen == 0 && outlen == 0);
    }
    #[kani::proof]
    #[kani::unwind(4)]
    #[kani::stub(alloc::alloc::alloc, alloc_stub)]
    #[kani::stub(alloc::alloc::dealloc, dealloc_stub)]
    #[kani::stub(alloc::alloc::realloc, realloc_stub)]
    #[kani::stub(alloc::alloc::dealloc_nonnull, dealloc_nonnull_stub)]
    #[kani::stub(alloc::alloc::realloc_nonnull, realloc_nonnull_stub)]
    #[kani::stub(alloc::string::String::from_utf8, from_utf8_stub)]
    pub fn c05_list_of_mixed_records_result_len0() {
        body_entries(true, false, 0, 0);
    }
    #[kani::proof]
    #[kani::unwind(4)]
    #[kani::stub(alloc::alloc::alloc, alloc_stub)]
    #[kani::stub(alloc::alloc::dealloc, dealloc_stub)]
    #[kani::stub(alloc::alloc::realloc, realloc_stub)]
    #[kani::stub(alloc::alloc::dealloc_nonnull, dealloc_nonnull_stub)]
    #[kani::stub(alloc::alloc::realloc_nonnull, realloc_nonnull_stub)]
    #[kani::stub(alloc::string::String::from_utf8, from_utf8_stub)]
    pub fn c05_list_of_mixed_records_result_len1() {
        body_entries(true, false, 0, 1);
    }
    #[kani::proof]
    #[kani::unwind(4)]
    #[kani::stub(alloc::alloc::alloc, alloc_stub)]
    #[kani::stub(alloc::alloc::dealloc, dealloc_stub)]
    #[kani::stub(alloc::alloc::realloc, realloc_stub)]
    #[kani::stub(alloc::alloc::dealloc_nonnull, dealloc_nonnull_stub)]
    #[kani::stub(alloc::alloc::realloc_nonnull, realloc_nonnull_stub)]
    #[kani::stub(alloc::string::String::from_utf8, from_utf8_stub)]
    pub fn c05_list_of_mixed_records_result_len2() {
        body_entries(true, false, 0, 2);
    }
    #[kani::proof]
    #[kani::unwind(4)]
    #[kani::stub(alloc::alloc::alloc, alloc_stub)]
    #[kani::stub(alloc::alloc::dealloc, dealloc_stub)]
    #[kani::stub(alloc::alloc::realloc, realloc_stub)]
    #[kani::stub(alloc::alloc::dealloc_nonnull, dealloc_nonnull_stub)]
    #[kani::stub(alloc::alloc::realloc_nonnull, realloc_nonnull_stub)]
    #[kani::stub(alloc::string::String::from_utf8, from_utf8_stub)]
    pub fn c05_list_of_mixed_records_param_len1() {
        body_entries(true, false, 1, 0);
    }
    #[kani::proof]
    #[kani::unwind(4)]
    #[kani::stub(alloc::alloc::alloc, alloc_stub)]
    #[kani::stub(alloc::alloc::dealloc, dealloc_stub)]
    #[kani::stub(alloc::alloc::realloc, realloc_stub)]
    #[kani::stub(alloc::alloc::dealloc_nonnull, dealloc_nonnull_stub)]
    #[kani::stub(alloc::alloc::realloc_nonnull, realloc_nonnull_stub)]
    #[kani::stub(alloc::string::String::from_utf8, from_utf8_stub)]
    pub fn c05_list_of_mixed_records_param_len2() {
        body_entries(true, false, 2, 0);
    }
    #[kani::proof]
    #[kani::unwind(4)]
    #[kani::stub(alloc::alloc::alloc, alloc_stub)]
    #[kani::stub(alloc::alloc::dealloc, dealloc_stub)]
    #[kani::stub(alloc::alloc::realloc, realloc_stub)]
    #[kani::stub(alloc::alloc::dealloc_nonnull, dealloc_nonnull_stub)]
    #[kani::stub(alloc::alloc::realloc_nonnull, realloc_nonnull_stub)]
    #[kani::stub(alloc::string::String::from_utf8, from_utf8_stub)]
    pub fn c06_list_of_mixed_records_result_len0() {
        body_entries(false, true, 0, 0);
    }
    #[kani::proof]
    #[kani::unwind(4)]
    #[kani::stub(alloc::alloc::alloc, alloc_stub)]
    #[kani::stub(alloc::alloc::dealloc, dealloc_stub)]
    #[kani::stub(alloc::alloc::realloc, realloc_stub)]
    #[kani::stub(alloc::alloc::dealloc_nonnull, dealloc_nonnull_stub)]
    #[kani::stub(alloc::alloc::realloc_nonnull, realloc_nonnull_stub)]
    #[kani::stub(alloc::string::String::from_utf8, from_utf8_stub)]
    pub fn c06_list_of_mixed_records_result_len1() {
        body_entries(false, true, 0, 1);
    }
    #[kani::proof]
    #[kani::unwind(4)]
    #[kani::stub(alloc::alloc::alloc, alloc_stub)]
    #[kani::stub(alloc::alloc::dealloc, dealloc_stub)]
    #[kani::stub(alloc::alloc::realloc, realloc_stub)]
    #[kani::stub(alloc::alloc::dealloc_nonnull, dealloc_nonnull_stub)]
    #[kani::stub(alloc::alloc::realloc_nonnull, realloc_nonnull_stub)]
    #[kani::stub(alloc::string::String::from_utf8, from_utf8_stub)]
    pub fn c06_list_of_mixed_records_result_len2() {
        body_entries(false, true, 0, 2);
    }
    #[kani::proof]
    #[kani::unwind(4)]
    #[kani::stub(alloc::alloc::alloc, alloc_stub)]
    #[kani::stub(alloc::alloc::dealloc, dealloc_stub)]
    #[kani::stub(alloc::alloc::realloc, realloc_stub)]
    #[kani::stub(alloc::alloc::dealloc_nonnull, dealloc_nonnull_stub)]
    #[kani::stub(alloc::alloc::realloc_nonnull, realloc_nonnull_stub)]
    #[kani::stub(alloc::string::String::from_utf8, from_utf8_stub)]
    pub fn c06_list_of_mixed_records_param_len1() {
        body_entries(false, true, 1, 0);
    }
    #[kani::proof]
    #[kani::unwind(4)]
    #[kani::stub(alloc::alloc::alloc, alloc_stub)]
    #[kani::stub(alloc::alloc::dealloc, dealloc_stub)]
    #[kani::stub(alloc::alloc::realloc, realloc_stub)]
    #[kani::stub(alloc::alloc::dealloc_nonnull, dealloc_nonnull_stub)]
    #[kani::stub(alloc::alloc::realloc_nonnull, realloc_nonnull_stub)]
    #[kani::stub(alloc::string::String::from_utf8, from_utf8_stub)]
    pub fn c06_list_of_mixed_records_param_len2() {
        body_entries(false, true, 2, 0);
    }

    /// variant { f(f32), w(u64), d(f64) }: an f32 whose payload slot another case widens to i64; every bit pattern (NaNs included), both
    /// directions of an export and of an import
    fn fvar_of(case: u8, bits: u64) -> Fvar {
        match case {
            0 => Fvar::F(f32::from_bits(bits as u32)),
            1 => Fvar::W(bits),
            _ => Fvar::D(f64::from_bits(bits)),
        }
    }
    fn fvar_bits(v: &Fvar) -> (u8, u64) {
        match v {
            Fvar::F(x) => (0, x.to_bits() as u64),
            Fvar::W(x) => (1, *x),
            Fvar::D(x) => (2, x.to_bits()),
        }
    }
    fn any_fvar_bits() -> (u8, u64) {
        let (c, b): (u8, u64) = (kani::any(), kani::any());
        kani::assume(c < 3);
        (c, if c == 0 { (b as u32) as u64 } else { b })
    }
    #[kani::proof]
    pub fn c05_f32_in_wide_variant_export_unchanged() {
        let (c, b) = any_fvar_bits();
        let (rc, rb) = any_fvar_bits();
        unsafe {
            RET_FVAR = Some(fvar_of(rc, rb));
            let ret = _export_echo_fvar_cabi::<Impl>(c as i32, b as i64); // the host zero-extends an f32's bits into the i64 slot
            let seen = SEEN_FVAR.take().unwrap();
            kani::assert(CALLS == 1 && fvar_bits(&seen) == (c, b), "the case and payload bits the host sent arrive unchanged");
            kani::assert(rd::<u8>(ret, 0) == rc, "the returned case is stored as the discriminant");
            kani::assert(if rc == 0 { rd::<u32>(ret, 8) as u64 == rb } else { rd::<u64>(ret, 8) == rb }, "the returned payload bits are stored at the payload offset");
        }
    }
    #[kani::proof]
    pub fn c05_f32_in_wide_variant_import_unchanged() {
        let (c, b) = any_fvar_bits();
        let (rc, rb) = any_fvar_bits();
        unsafe {
            HOST_FVAR_RET = (rc, rb);
            let r = verif::val::sinks::send_fvar(fvar_of(c, b));
            kani::assert(FVAR_CALLS == 1 && HOST_FVAR == (c as i32, b), "the host lifts the case and exactly the payload bits the guest sent");
            kani::assert(fvar_bits(&r) == (rc, rb), "the guest receives the case and exactly the payload bits the host returned");
        }
    }

    /// result<u32> and result<_, u8>: results with one payload type only
    #[kani::proof]
    pub fn c05_result_with_one_payload_unchanged_both_ways() {
        let err: bool = kani::any();
        let rerr: bool = kani::any();
        let (v, rv): (u32, u32) = (kani::any(), kani::any());
        let only_ok: bool = kani::any();
        unsafe {
            if only_ok {
                RET_ROK = if rerr { Err(()) } else { Ok(rv) };
                let ret = _export_echo_rok_cabi::<Impl>(err as i32, if err { 0 } else { v as i32 });
                kani::assert(CALLS == 1 && SEEN_ROK == if err { Err(()) } else { Ok(v) }, "result<u32> arrives unchanged");
                kani::assert(rd::<u8>(ret, 0) == rerr as u8 && (rerr || rd::<u32>(ret, 4) == rv), "result<u32> is stored canonically (discriminant @0, ok payload @4)");
            } else {
                RET_RERR = if rerr { Err(rv as u8) } else { Ok(()) };
                let ret = _export_echo_rerr_cabi::<Impl>(err as i32, if err { (v as u8) as i32 } else { 0 });
                kani::assert(CALLS == 1 && SEEN_RERR == if err { Err(v as u8) } else { Ok(()) }, "result<_, u8> arrives unchanged");
                kani::assert(rd::<u8>(ret, 0) == rerr as u8 && (!rerr || rd::<u8>(ret, 1) == rv as u8), "result<_, u8> is stored canonically (discriminant @0, err payload @1)");
            }
        }
    }

    /// record { bool, char, s8, s16, s64, f32, f64 }: every scalar kind in one record, full domains (floats as bit patterns)
    fn any_char() -> char {
        let c: u32 = kani::any();
        kani::assume(c < 0xD800 || (c > 0xDFFF && c <= 0x10FFFF));
        char::from_u32(c).unwrap()
    }
    #[kani::proof]
    pub fn c05_scalar_record_unchanged_both_ways() {
        let (b, rb): (bool, bool) = (kani::any(), kani::any());
        let (c, rc) = (any_char(), any_char());
        let (s, rs): (i8, i8) = (kani::any(), kani::any());
        let (h, rh): (i16, i16) = (kani::any(), kani::any());
        let (l, rl): (i64, i64) = (kani::any(), kani::any());
        let (f, rf): (u32, u32) = (kani::any(), kani::any());
        let (d, rdd): (u64, u64) = (kani::any(), kani::any());
        unsafe {
            RET_SCAL = Some(Scal { b: rb, c: rc, s: rs, h: rh, l: rl, f: f32::from_bits(rf), d: f64::from_bits(rdd) });
            // the host sign-extends s8 / s16 into the core i32 (lower_flat)
            let ret = _export_echo_scal_cabi::<Impl>(b as i32, c as u32 as i32, s as i32, h as i32, l, f32::from_bits(f), f64::from_bits(d));
            let seen = SEEN_SCAL.unwrap();
            kani::assert(CALLS == 1 && seen.b == b && seen.c == c && seen.s == s && seen.h == h && seen.l == l && seen.f.to_bits() == f && seen.d.to_bits() == d,
                "bool, char, s8, s16, s64, f32 (bits), f64 (bits) arrive unchanged");
            kani::assert(rd::<u8>(ret, 0) == rb as u8 && rd::<u32>(ret, 4) == rc as u32 && rd::<i8>(ret, 8) == rs && rd::<i16>(ret, 10) == rh && rd::<i64>(ret, 16) == rl
                && rd::<u32>(ret, 24) == rf && rd::<u64>(ret, 32) == rdd, "the returned record is stored at its canonical offsets (0, 4, 8, 10, 16, 24, 32)");
        }
    }
    #[kani::proof]
    pub fn c05_flags_32_and_nested_option_unchanged_both_ways() {
        let (v, rv): (u32, u32) = (kani::any(), kani::any());
        unsafe {
            RET_BIG = rv;
            let r = _export_echo_big_cabi::<Impl>(v as i32);
            kani::assert(CALLS == 1 && SEEN_BIG == v && r as u32 == rv, "a flags value with 32 members travels as exactly its bit set (bit 31 included)");
            let a: Option<Option<u8>> = kani::any();
            let r2: Option<Option<u8>> = kani::any();
            RET_OO = r2;
            let (d0, d1, p) = match a { None => (0, 0, 0), Some(None) => (1, 0, 0), Some(Some(x)) => (1, 1, x as i32) };
            let ret = _export_echo_oo_cabi::<Impl>(d0, d1, p);
            kani::assert(CALLS == 2 && SEEN_OO == a, "option<option<u8>> arrives unchanged (none, some(none), some(some(v)) are distinct)");
            let (e0, e1, e2): (u8, u8, u8) = match r2 { None => (0, 0, 0), Some(None) => (1, 0, 0), Some(Some(x)) => (1, 1, x) };
            kani::assert(rd::<u8>(ret, 0) == e0 && (e0 == 0 || (rd::<u8>(ret, 1) == e1 && (e1 == 0 || rd::<u8>(ret, 2) == e2))), "the returned nested option is stored canonically (outer @0, inner @1, payload @2)");
        }
    }

    /// list<string> RETURNED by an import: the guest takes over what the host allocated for it; values unchanged, everything freed exactly once
    fn body_import_result(values: bool, memory: bool, n: usize) {
        let inner: usize = kani::any();
        kani::assume(inner <= 1);
        let b = ascii2()[0];
        let arg: u32 = kani::any();
        unsafe {
            FETCH_LEN = n;
            FETCH_INNER = inner;
            FETCH_BYTE = b;
            let got = verif::val::sinks::fetch_names(arg);
            if values {
                kani::assert(FETCH_CALLS == 1 && FETCH_ARG == arg && got.len() == n, "exactly one core call with the flat argument; the list arrives with its length");
                let mut i = 0;
                while i < n {
                    kani::assert(got[i].len() == inner && (inner < 1 || got[i].as_bytes()[0] == b), "each string the host returned arrives unchanged");
                    i += 1;
                }
            }
            drop(got);
            kani::assert(!LEDGER_FULL, "HARNESS-LIMIT: allocation ledger full");
            if memory { kani::assert(!BAD_FREE, "every block is freed at most once, with the size and alignment it was allocated with"); }
            if memory { kani::assert(live_blocks() == 0, "the list buffer and every string the host allocated are released once the value is dropped"); }
        }
        kani::cover!(inner == 1);
        kani::cover!(inner == 0);
    }
    #[kani::proof]
    #[kani::unwind(4)]
    #[kani::stub(alloc::alloc::alloc, alloc_stub)]
    #[kani::stub(alloc::alloc::dealloc, dealloc_stub)]
    #[kani::stub(alloc::alloc::realloc, realloc_stub)]
    #[kani::stub(alloc::alloc::dealloc_nonnull, dealloc_nonnull_stub)]
    #[kani::stub(alloc::alloc::realloc_nonnull, realloc_nonnull_stub)]
    #[kani::stub(alloc::string::String::from_utf8, from_utf8_stub)]
    pub fn c05_import_result_list_of_strings_len0() {
        body_import_result(true, false, 0);
    }
    #[kani::proof]
    #[kani::unwind(4)]
    #[kani::stub(alloc::alloc::alloc, alloc_stub)]
    #[kani::stub(alloc::alloc::dealloc, dealloc_stub)]
    #[kani::stub(alloc::alloc::realloc, realloc_stub)]
    #[kani::stub(alloc::alloc::dealloc_nonnull, dealloc_nonnull_stub)]
    #[kani::stub(alloc::alloc::realloc_nonnull, realloc_nonnull_stub)]
    #[kani::stub(alloc::string::String::from_utf8, from_utf8_stub)]
    pub fn c05_import_result_list_of_strings_len1() {
        body_import_result(true, false, 1);
    }
    #[kani::proof]
    #[kani::unwind(4)]
    #[kani::stub(alloc::alloc::alloc, alloc_stub)]
    #[kani::stub(alloc::alloc::dealloc, dealloc_stub)]
    #[kani::stub(alloc::alloc::realloc, realloc_stub)]
    #[kani::stub(alloc::alloc::dealloc_nonnull, dealloc_nonnull_stub)]
    #[kani::stub(alloc::alloc::realloc_nonnull, realloc_nonnull_stub)]
    #[kani::stub(alloc::string::String::from_utf8, from_utf8_stub)]
    pub fn c05_import_result_list_of_strings_len2() {
        body_import_result(true, false, 2);
    }
    #[kani::proof]
    #[kani::unwind(4)]
    #[kani::stub(alloc::alloc::alloc, alloc_stub)]
    #[kani::stub(alloc::alloc::dealloc, dealloc_stub)]
    #[kani::stub(alloc::alloc::realloc, realloc_stub)]
    #[kani::stub(alloc::alloc::dealloc_nonnull, dealloc_nonnull_stub)]
    #[kani::stub(alloc::alloc::realloc_nonnull, realloc_nonnull_stub)]
    #[kani::stub(alloc::string::String::from_utf8, from_utf8_stub)]
    pub fn c06_import_result_list_of_strings_len0() {
        body_import_result(false, true, 0);
    }
    #[kani::proof]
    #[kani::unwind(4)]
    #[kani::stub(alloc::alloc::alloc, alloc_stub)]
    #[kani::stub(alloc::alloc::dealloc, dealloc_stub)]
    #[kani::stub(alloc::alloc::realloc, realloc_stub)]
    #[kani::stub(alloc::alloc::dealloc_nonnull, dealloc_nonnull_stub)]
    #[kani::stub(alloc::alloc::realloc_nonnull, realloc_nonnull_stub)]
    #[kani::stub(alloc::string::String::from_utf8, from_utf8_stub)]
    pub fn c06_import_result_list_of_strings_len1() {
        body_import_result(false, true, 1);
    }
    #[kani::proof]
    #[kani::unwind(4)]
    #[kani::stub(alloc::alloc::alloc, alloc_stub)]
    #[kani::stub(alloc::alloc::dealloc, dealloc_stub)]
    #[kani::stub(alloc::alloc::realloc, realloc_stub)]
    #[kani::stub(alloc::alloc::dealloc_nonnull, dealloc_nonnull_stub)]
    #[kani::stub(alloc::alloc::realloc_nonnull, realloc_nonnull_stub)]
    #[kani::stub(alloc::string::String::from_utf8, from_utf8_stub)]
    pub fn c06_import_result_list_of_strings_len2() {
        body_import_result(false, true, 2);
    }

    // ---- thorough tier: three elements each way (the ledger has seven slots: list buffer + three element buffers + slack)
    #[kani::proof]
    #[kani::unwind(5)]
    #[kani::stub(alloc::alloc::alloc, alloc_stub)]
    #[kani::stub(alloc::alloc::dealloc, dealloc_stub)]
    #[kani::stub(alloc::alloc::realloc, realloc_stub)]
    #[kani::stub(alloc::alloc::dealloc_nonnull, dealloc_nonnull_stub)]
    #[kani::stub(alloc::alloc::realloc_nonnull, realloc_nonnull_stub)]
    #[kani::stub(alloc::string::String::from_utf8, from_utf8_stub)]
    pub fn c05_list_of_strings_result_len3() {
        body_list_of_strings(true, false, 0, 3);
    }
    #[kani::proof]
    #[kani::unwind(5)]
    #[kani::stub(alloc::alloc::alloc, alloc_stub)]
    #[kani::stub(alloc::alloc::dealloc, dealloc_stub)]
    #[kani::stub(alloc::alloc::realloc, realloc_stub)]
    #[kani::stub(alloc::alloc::dealloc_nonnull, dealloc_nonnull_stub)]
    #[kani::stub(alloc::alloc::realloc_nonnull, realloc_nonnull_stub)]
    #[kani::stub(alloc::string::String::from_utf8, from_utf8_stub)]
    pub fn c05_list_of_strings_param_len3() {
        body_list_of_strings(true, false, 3, 0);
    }
    #[kani::proof]
    #[kani::unwind(5)]
    #[kani::stub(alloc::alloc::alloc, alloc_stub)]
    #[kani::stub(alloc::alloc::dealloc, dealloc_stub)]
    #[kani::stub(alloc::alloc::realloc, realloc_stub)]
    #[kani::stub(alloc::alloc::dealloc_nonnull, dealloc_nonnull_stub)]
    #[kani::stub(alloc::alloc::realloc_nonnull, realloc_nonnull_stub)]
    #[kani::stub(alloc::string::String::from_utf8, from_utf8_stub)]
    pub fn c05_list_of_mixed_records_result_len3() {
        body_entries(true, false, 0, 3);
    }
    #[kani::proof]
    #[kani::unwind(5)]
    #[kani::stub(alloc::alloc::alloc, alloc_stub)]
    #[kani::stub(alloc::alloc::dealloc, dealloc_stub)]
    #[kani::stub(alloc::alloc::realloc, realloc_stub)]
    #[kani::stub(alloc::alloc::dealloc_nonnull, dealloc_nonnull_stub)]
    #[kani::stub(alloc::alloc::realloc_nonnull, realloc_nonnull_stub)]
    #[kani::stub(alloc::string::String::from_utf8, from_utf8_stub)]
    pub fn c05_list_of_mixed_records_param_len3() {
        body_entries(true, false, 3, 0);
    }
    #[kani::proof]
    #[kani::unwind(5)]
    #[kani::stub(alloc::alloc::alloc, alloc_stub)]
    #[kani::stub(alloc::alloc::dealloc, dealloc_stub)]
    #[kani::stub(alloc::alloc::realloc, realloc_stub)]
    #[kani::stub(alloc::alloc::dealloc_nonnull, dealloc_nonnull_stub)]
    #[kani::stub(alloc::alloc::realloc_nonnull, realloc_nonnull_stub)]
    #[kani::stub(alloc::string::String::from_utf8, from_utf8_stub)]
    pub fn c06_list_of_strings_result_len3() {
        body_list_of_strings(false, true, 0, 3);
    }
    #[kani::proof]
    #[kani::unwind(5)]
    #[kani::stub(alloc::alloc::alloc, alloc_stub)]
    #[kani::stub(alloc::alloc::dealloc, dealloc_stub)]
    #[kani::stub(alloc::alloc::realloc, realloc_stub)]
    #[kani::stub(alloc::alloc::dealloc_nonnull, dealloc_nonnull_stub)]
    #[kani::stub(alloc::alloc::realloc_nonnull, realloc_nonnull_stub)]
    #[kani::stub(alloc::string::String::from_utf8, from_utf8_stub)]
    pub fn c06_list_of_strings_param_len3() {
        body_list_of_strings(false, true, 3, 0);
    }
    #[kani::proof]
    #[kani::unwind(5)]
    #[kani::stub(alloc::alloc::alloc, alloc_stub)]
    #[kani::stub(alloc::alloc::dealloc, dealloc_stub)]
    #[kani::stub(alloc::alloc::realloc, realloc_stub)]
    #[kani::stub(alloc::alloc::dealloc_nonnull, dealloc_nonnull_stub)]
    #[kani::stub(alloc::alloc::realloc_nonnull, realloc_nonnull_stub)]
    #[kani::stub(alloc::string::String::from_utf8, from_utf8_stub)]
    pub fn c06_list_of_mixed_records_result_len3() {
        body_entries(false, true, 0, 3);
    }
    #[kani::proof]
    #[kani::unwind(5)]
    #[kani::stub(alloc::alloc::alloc, alloc_stub)]
    #[kani::stub(alloc::alloc::dealloc, dealloc_stub)]
    #[kani::stub(alloc::alloc::realloc, realloc_stub)]
    #[kani::stub(alloc::alloc::dealloc_nonnull, dealloc_nonnull_stub)]
    #[kani::stub(alloc::alloc::realloc_nonnull, realloc_nonnull_stub)]
    #[kani::stub(alloc::string::String::from_utf8, from_utf8_stub)]
    pub fn c06_list_of_mixed_records_param_len3() {
        body_entries(false, true, 3, 0);
    }

    /// a string and a canonical list passed to an import are BORROWED: the callee sees the caller's own buffers (no copy), nothing is freed
    #[kani::proof]
    #[kani::unwind(4)]
    #[kani::stub(alloc::alloc::alloc, alloc_stub)]
    #[kani::stub(alloc::alloc::dealloc, dealloc_stub)]
    #[kani::stub(alloc::alloc::realloc, realloc_stub)]
    #[kani::stub(alloc::alloc::dealloc_nonnull, dealloc_nonnull_stub)]
    #[kani::stub(alloc::alloc::realloc_nonnull, realloc_nonnull_stub)]
    pub fn c05_c06_import_string_and_list_passed_by_reference() {
        let b = ascii2();
        let w: [u32; 2] = kani::any();
        unsafe {
            let s = string_of(&b, 2);
            let mut l: Vec<u32> = Vec::new();
            l.push(w[0]);
            l.push(w[1]);
            let before = live_blocks();
            let r = verif::val::sinks::take_str(&s, &l);
            kani::assert(r == 7 && TAKE == (s.as_ptr() as usize, 2, l.as_ptr() as usize, 2), "the callee receives the caller's own buffers and their lengths (no copy)");
            kani::assert(TAKE_FIRST == (b[0], w[0]), "the callee reads the caller's data");
            kani::assert(!BAD_FREE && live_blocks() == before && s.as_bytes()[1] == b[1] && l[1] == w[1], "nothing is freed or changed by the call: the arguments are still the caller's");
        }
    }
}
