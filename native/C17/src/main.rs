// Native small-scope search used ONLY to find a replayable input after a Verus obligation failed.
// Drives the real AsyncFilterSet through its public API (push / is_async / ensure_all_used).
use wit_bindgen_core::AsyncFilterSet;
use wit_parser::{Function, FunctionKind, Resolve, Stability};

fn func(name: &str, is_async: bool) -> Function {
    Function {
        name: name.to_string(),
        kind: if is_async { FunctionKind::AsyncFreestanding } else { FunctionKind::Freestanding },
        params: Vec::new(),
        result: None,
        docs: Default::default(),
        stability: Stability::Unknown,
        span: Default::default(),
        external_id: None,
    }
}

#[derive(Clone, Copy, PartialEq, Debug)]
enum F { All, Fun(&'static str), Imp(&'static str), Exp(&'static str) }

fn text(on: bool, f: F) -> String {
    let p = if on { "" } else { "-" };
    match f {
        F::All => format!("{p}all"),
        F::Fun(s) => format!("{p}{s}"),
        F::Imp(s) => format!("{p}import:{s}"),
        F::Exp(s) => format!("{p}export:{s}"),
    }
}
fn matches(f: F, name: &str, import: bool) -> bool {
    match f { F::All => true, F::Fun(s) => s == name, F::Imp(s) => import && s == name, F::Exp(s) => !import && s == name }
}

fn main() {
    let resolve = Resolve::default();
    let filters = [F::All, F::Fun("f"), F::Fun("g"), F::Imp("f"), F::Exp("f"), F::Imp("g"), F::Exp("g")];
    let mut dirs = Vec::new();
    for on in [true, false] { for f in filters { dirs.push((on, f)); } }
    let queries: Vec<(&str, bool, bool)> = vec![("f", true, false), ("f", false, false), ("g", true, true), ("g", false, true), ("h", true, true), ("h", false, false)];
    let mut tried = 0u64;
    for len in 0..=3usize {
        let total = dirs.len().pow(len as u32);
        for code in 0..total {
            let mut c = code;
            let mut list = Vec::new();
            for _ in 0..len { list.push(dirs[c % dirs.len()]); c /= dirs.len(); }
            // every subset of queries (as a bitmask) is a history of is_async calls
            for qmask in 0u32..(1 << queries.len()) {
                let mut set = AsyncFilterSet::default();
                for (on, f) in &list { set.push(&text(*on, *f)); }
                let mut used = vec![false; len];
                let mut trace = format!("directives={:?}", list.iter().map(|(o, f)| text(*o, *f)).collect::<Vec<_>>());
                for (qi, (name, import, wit_async)) in queries.iter().enumerate() {
                    if qmask & (1 << qi) == 0 { continue; }
                    let got = set.is_async(&resolve, None, &func(name, *wit_async), *import);
                    let k = list.iter().position(|(_, f)| matches(*f, name, *import));
                    let want = match k { Some(k) => { used[k] = true; list[k].0 } None => *wit_async };
                    trace += &format!("; is_async({name:?}, import={import}, wit_async={wit_async})={got}");
                    tried += 1;
                    if got != want {
                        println!("COUNTEREXAMPLE {trace} : expected {want} (first matching directive: {k:?})");
                        return;
                    }
                }
                let err = set.ensure_all_used().is_err();
                let want_err = list.iter().enumerate().any(|(i, (_, f))| *f != F::All && !used[i]);
                if err != want_err {
                    println!("COUNTEREXAMPLE {trace}; ensure_all_used().is_err()={err} : expected {want_err}");
                    return;
                }
            }
        }
    }
    // ---- second phase: functions inside an interface (qualified name `<interface>#<function>`), including a pair of
    // functions where one name is a suffix of the other
    let key = wit_parser::WorldKey::Name("i".to_string());
    let qfilters = [F::All, F::Fun("i#f"), F::Fun("i#gf"), F::Imp("i#f"), F::Exp("i#gf"), F::Fun("f"), F::Fun("j#f")];
    let mut qdirs = Vec::new();
    for on in [true, false] { for f in qfilters { qdirs.push((on, f)); } }
    let iq: Vec<(&str, bool, bool)> = vec![("f", true, false), ("gf", true, false), ("f", false, true), ("gf", false, true)];
    for len in 0..=2usize {
        let total = qdirs.len().pow(len as u32);
        for code in 0..total {
            let mut c = code;
            let mut list = Vec::new();
            for _ in 0..len { list.push(qdirs[c % qdirs.len()]); c /= qdirs.len(); }
            for qmask in 0u32..(1 << iq.len()) {
                let mut set = AsyncFilterSet::default();
                for (on, f) in &list { set.push(&text(*on, *f)); }
                let mut used = vec![false; len];
                let mut trace = format!("directives={:?}", list.iter().map(|(o, f)| text(*o, *f)).collect::<Vec<_>>());
                for (qi, (name, import, wit_async)) in iq.iter().enumerate() {
                    if qmask & (1 << qi) == 0 { continue; }
                    let got = set.is_async(&resolve, Some(&key), &func(name, *wit_async), *import);
                    let full = format!("i#{name}");
                    let k = list.iter().position(|(_, f)| matches(*f, &full, *import));
                    let want = match k { Some(k) => { used[k] = true; list[k].0 } None => *wit_async };
                    trace += &format!("; is_async(interface i, {name:?}, import={import}, wit_async={wit_async})={got}");
                    tried += 1;
                    if got != want {
                        println!("COUNTEREXAMPLE {trace} : expected {want} (first matching directive: {k:?})");
                        return;
                    }
                }
                let err = set.ensure_all_used().is_err();
                let want_err = list.iter().enumerate().any(|(i, (_, f))| *f != F::All && !used[i]);
                if err != want_err {
                    println!("COUNTEREXAMPLE {trace}; ensure_all_used().is_err()={err} : expected {want_err}");
                    return;
                }
            }
        }
    }
    println!("no counterexample in {tried} is_async calls (all directive lists of length <=3 over {} directives, all query subsets)", dirs.len());
}
