// Native bounded search used ONLY to find a replayable input after a Verus obligation failed.
#[path = "@REPO@/crates/core/src/ns.rs"]
#[allow(dead_code)]
mod ns;
use std::collections::HashSet;

fn main() {
    let names = ["a", "a0", "a1", "a2", "b", ""];
    // op = (kind, name index): kind 0 insert, 1 tmp
    let nops = 2 * names.len();
    let mut tried = 0u64;
    for len in 1..=5usize {
        let total = nops.pow(len as u32);
        for code in 0..total {
            let mut c = code;
            let mut ns = ns::Ns::default();
            let mut model: HashSet<String> = HashSet::new();
            let mut trace = Vec::new();
            for _ in 0..len {
                let op = c % nops;
                c /= nops;
                let name = names[op % names.len()];
                if op < names.len() {
                    let r = ns.insert(name);
                    trace.push(format!("insert({name:?})={}", r.is_ok()));
                    let fresh = model.insert(name.to_string());
                    if r.is_ok() != fresh {
                        println!("COUNTEREXAMPLE {} : insert reported {} but name was {}defined", trace.join("; "), if r.is_ok() {"Ok"} else {"Err"}, if fresh {"not "} else {""});
                        return;
                    }
                } else {
                    let r = ns.tmp(name);
                    trace.push(format!("tmp({name:?})={r:?}"));
                    if model.contains(&r) {
                        println!("COUNTEREXAMPLE {} : tmp returned a name already defined/handed out", trace.join("; "));
                        return;
                    }
                    model.insert(r);
                }
                tried += 1;
            }
        }
    }
    println!("no counterexample in {tried} operations (sequences up to length 5 over {:?})", names);
}
