// Native small-scope search used ONLY to find a replayable input after a Verus obligation failed.
#![allow(dead_code)]
use std::collections::HashMap;
type TypeId = usize;
#[derive(Default)]
//@EXTRACT crates/core/src/types.rs \bstruct\s+UnionFind\b
//@EXTRACT crates/core/src/types.rs \bimpl\s+UnionFind\b

const N: usize = 5;
fn model_root(cls: &[usize; N], x: usize) -> usize { cls[x] }

fn main() {
    // all sequences of up to 4 operations over ids 0..N; op = union(a,b) or find(a); model = class labels
    let nops = N * N + N;
    let mut tried = 0u64;
    for len in 1..=4u32 {
        for code in 0..nops.pow(len) {
            let mut c = code;
            let mut uf = UnionFind::default();
            let mut cls: [usize; N] = core::array::from_fn(|i| i);
            let mut trace = Vec::new();
            for _ in 0..len {
                let op = c % nops; c /= nops;
                if op < N * N {
                    let (a, b) = (op / N, op % N);
                    uf.union(a, b);
                    trace.push(format!("union({a},{b})"));
                    let (ca, cb) = (cls[a], cls[b]);
                    for x in 0..N { if cls[x] == cb { cls[x] = ca; } }
                } else {
                    let a = op - N * N;
                    let r = uf.find(a);
                    trace.push(format!("find({a})={r}"));
                }
                tried += 1;
                // observable: two ids are "the same" iff find() gives the same representative
                for x in 0..N { for y in 0..N {
                    let same = uf.find(x) == uf.find(y);
                    if same != (cls[x] == cls[y]) {
                        println!("COUNTEREXAMPLE {} : find({x})==find({y}) is {same}, but the merged classes say {}", trace.join("; "), cls[x] == cls[y]);
                        return;
                    }
                }}
            }
        }
    }
    println!("no counterexample in {tried} operations (all sequences of <=4 union/find over {N} ids)");
}
