"""C02 (partial, bounded) — canonical calling convention: Kani on the Rust backend's instantiation of the shared call glue
for a probe world (16 / 17 parameters, scalar / aggregate result, import and export)."""
LEVEL = 'other'
import os, re
from vlib import kani
from vlib.kani import Harness
from vlib.common import Obligation
from . import rustgen

G = 'generated Rust glue for kani/rustgen_call/probe.wit (crates/core/src/abi.rs Generator::call as driven by crates/rust/src/interface.rs + bindgen.rs) — '
B = 'one probe world, Rust backend, synchronous functions'
HARNESSES = [
    Harness('c02_import_sixteen_params_are_flat', 'import.16_params_flat_one_core_call_direct_result', G + 'import, 16 x u32 -> u32', bounded=B),
    Harness('c02_import_seventeen_params_go_through_a_record', 'import.17_params_through_canonical_record', G + 'import, 17 x u32 -> u32', bounded=B),
    Harness('c02_import_aggregate_result_through_return_area', 'import.aggregate_result_through_return_area', G + 'import, u32 -> tuple<u32, u64>', bounded=B),
    Harness('c02_export_sixteen_params_are_flat', 'export.16_params_flat_user_called_once_direct_result', G + 'export, 16 x u32 -> u32', bounded=B),
    Harness('c02_export_seventeen_params_record_read_and_freed_once', 'export.17_params_record_read_and_freed_exactly_once', G + 'export, 17 x u32 -> u32', bounded=B),
    Harness('c02_export_aggregate_result_through_return_area', 'export.aggregate_result_through_return_area', G + 'export, u32 -> tuple<u32, u64>', bounded=B),
    Harness('c02_import_mixed_params_record_has_canonical_padding', 'import.mixed_params_record_canonical_padding', G + 'import, (u8, u64, u16, u32, u8, u64, 11 x u32) -> u32', bounded=B),
    Harness('c02_export_mixed_params_record_read_at_canonical_offsets_freed_once', 'export.mixed_params_record_canonical_offsets_freed_once', G + 'export, same signature', bounded=B),
]
# canonical core signatures (CanonicalABI.md flatten_functype with MAX_FLAT_PARAMS = 16, MAX_FLAT_RESULTS = 1), as Rust text
I16 = ','.join('arg%d: i32' % i for i in range(16)) + ','
SIGS = [
    ('export.sixteen', r'pub unsafe fn _export_sixteen_cabi<T_: Guest>\(([^)]*)\)\s*->\s*([^{]+?)\s*\{', I16, 'i32'),
    ('export.seventeen', r'pub unsafe fn _export_seventeen_cabi<T_: Guest>\(([^)]*)\)\s*->\s*([^{]+?)\s*\{', 'arg0: *mut u8,', 'i32'),
    ('export.pair', r'pub unsafe fn _export_pair_cabi<T_: Guest>\(([^)]*)\)\s*->\s*([^{]+?)\s*\{', 'arg0: i32,', '*mut u8'),
    ('import.sixteen', r'#\[link_name = "sixteen"\]\s*fn \w+\(([^)]*)\)\s*->\s*([^;]+);', '_: i32, ' * 16, 'i32'),
    ('import.seventeen', r'#\[link_name = "seventeen"\]\s*fn \w+\(([^)]*)\)\s*->\s*([^;]+);', '_: *mut u8, ', 'i32'),
    ('export.mixed', r'pub unsafe fn _export_mixed_cabi<T_: Guest>\(([^)]*)\)\s*->\s*([^{]+?)\s*\{', 'arg0: *mut u8,', 'i32'),
    ('import.mixed', r'#\[link_name = "mixed"\]\s*fn \w+\(([^)]*)\)\s*->\s*([^;]+);', '_: *mut u8, ', 'i32'),
    ('import.pair', r'#\[link_name = "pair"\]\s*fn \w+\(([^)]*)\)()\s*;', '_: i32, _: *mut u8, ', ''),
    # async exports report their result through task.return, whose core signature is the flattened RESULT limited by the
    # same 16-value rule as parameters (5 values: flat; 17 values: one pointer)
    ('task_return.five', r'#\[link_name = "\[task-return\]five"\]\s*fn \w+\(([^)]*)\)()\s*;', '_: i32, ' * 5, ''),
    ('task_return.wide', r'#\[link_name = "\[task-return\]wide"\]\s*fn \w+\(([^)]*)\)()\s*;', '_: *mut u8, ', ''),
]


def norm(s):
    return re.sub(r'\s+', '', s)


def run(rep, tier):
    rep.assume('PARTIAL and BOUNDED: the shared call glue (Generator::call) is exercised through ONE backend (Rust) and ONE probe world; the other backends '
               'and, of the async ABI variants, only the task.return core signatures of two async exports (5 and 17 result values) are covered',
               'the core signatures expected of the generated functions are written by hand from CanonicalABI.md (flatten_functype: at most 16 flat '
               'parameters else one pointer; at most 1 flat result else a return pointer / return area)',
               'the host is the harness: mock imports (rule R1) read the parameter record / write the return area at the canonical offsets by hand',
               'scalar parameter and result values range over their full domains')
    d = rustgen.generate(rep, 'rustgen_call', mock=False)
    text = open(os.path.join(d, 'src/probe.rs')).read()
    # obligation per function: the generated core signature is the canonical one (text of the generated declaration)
    for name, pat, params, ret in SIGS:
        ob = Obligation('signature.' + name, G + name, 'property', 'text', bounded=B)
        m = re.search(pat, text)
        if not m:
            ob.status = 'undecided'
            ob.detail = 'generated declaration for %s not found (generator output changed shape)' % name
        elif norm(m.group(1)) == norm(params) and norm(m.group(2)) == norm(ret):
            ob.status = 'discharged'
        else:
            ob.status = 'failed'
            ob.detail = '%s: generated core signature (%s) -> %s, canonical (%s) -> %s' % (name, m.group(1).strip(), m.group(2).strip(), params.strip(), ret)
            ob.replay = {'input': 'kani/rustgen_call/probe.wit, function %s' % name, 'generated_declaration': m.group(0)[:400],
                         'how': 'the declaration the real generator emitted, compared with the canonical core signature'}
        rep.add(ob)
    d = rustgen.generate(rep, 'rustgen_call', mock=True)
    kani.run_harnesses(rep, d, HARNESSES, None, 'kani-rustgen', timeout_each=600, harness_file=os.path.join(d, 'src/lib.rs'),
                       playback_features='values-only', guard=False)
