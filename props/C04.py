"""C04 — variant payload slot joining: the shared bitcast table `abi::cast` (Kani, real function) and the
text every backend emits for each conversion (real emitters run on the real table; z3 over the emitted text)."""
import os, re, shutil
from vlib import kani, rustsrc, exprvc
from vlib.kani import Harness
from vlib.common import REPO, VERIF, BUILD, Undecided, Obligation
from . import c04_probe

TYS = ['I32', 'I64', 'F32', 'F64', 'Pointer', 'PointerOrI64', 'Length']
BACKENDS = ['rust', 'c', 'cpp', 'csharp', 'd', 'moonbit', 'go']
SRC = {'rust': 'crates/rust/src/lib.rs', 'c': 'crates/c/src/lib.rs', 'cpp': 'crates/cpp/src/lib.rs',
       'csharp': 'crates/csharp/src/function.rs', 'd': 'crates/d/src/lib.rs', 'moonbit': 'crates/moonbit/src/lib.rs',
       'go': 'crates/go/src/lib.rs'}


def spec_join(a, b):
    """the same TRUSTED table as kani/c04/src/lib.rs::spec_join (closure under join is proved there)"""
    if a == b:
        return a
    is32 = lambda t: t in ('I32', 'F32')
    is64 = lambda t: t in ('I64', 'F64')
    if 'PointerOrI64' in (a, b):
        return 'PointerOrI64'
    if 'Pointer' in (a, b):
        o = b if a == 'Pointer' else a
        return 'PointerOrI64' if is64(o) else 'Pointer'
    if 'Length' in (a, b):
        o = b if a == 'Length' else a
        return 'I64' if is64(o) else 'Length'
    if is32(a) and is32(b):
        return 'I32'
    return 'I64'


def width(t, p):
    return {'I32': 32, 'F32': 32, 'I64': 64, 'F64': 64, 'PointerOrI64': 64, 'Pointer': p, 'Length': p}[t]


def gen_cast_crate(rep):
    d = os.path.join(BUILD, 'kani', 'c04')
    os.makedirs(os.path.join(d, 'src'), exist_ok=True)
    open(os.path.join(d, 'Cargo.toml'), 'w').write(
        open(os.path.join(VERIF, 'kani/c04/Cargo.toml.in')).read().replace('@REPO@', REPO))
    shutil.copy(os.path.join(VERIF, 'kani/c04/src/lib.rs'), os.path.join(d, 'src/lib.rs'))
    shutil.copy(os.path.join(REPO, 'Cargo.lock'), os.path.join(d, 'Cargo.lock'))
    src = rustsrc.Source(os.path.join(REPO, 'crates/core/src/abi.rs'))
    it = src.find(r'\bpub\s+fn\s+cast\b')
    rep.functions.append('crates/core/src/abi.rs:%d fn `cast` sha256/16=%s (the real function, called through wit_bindgen_core::abi::cast '
                         'by the harness crate /verif/kani/c04)' % (it.line, it.sha()))
    return d


def c_unions(rep):
    """union definitions the C backend prints (read from its source text)"""
    text = open(os.path.join(REPO, SRC['c'])).read()
    un = {}
    for m in re.finditer(r'union (\w+) \{\{ (\w+) a; (\w+) b; \}\};', text):
        un[m.group(1)] = (m.group(2), m.group(3))
    return un


def store(v, ty):
    """the value as it sits in a variable of the backend's type for the slot (implicit conversion where the
    language has one; for the strictly typed languages a differing expression type is noted, the value converted)"""
    if v.ty.kind == ty.kind and v.ty.width == ty.width:
        return exprvc.Val(v.smt, ty)
    if v.ty.kind == 'mu64' or ty.kind == 'mu64':
        raise exprvc.Unsupported('%s stored into %s' % (v.ty, ty))
    return exprvc.conv_or_reint(v, ty)


def emitter_obligations(rep, tier):
    exe = c04_probe.build(rep)
    pairs = [(t, j) for t in TYS for j in TYS if t != j and spec_join(t, j) == j]
    types, casts = c04_probe.emit(exe, pairs + [(j, t) for t, j in pairs])
    extra = {'unions': c_unions(rep)}
    rep.extra['emitted'] = {}
    rep.extra['lower_side_upper_bits'] = {}
    for b in BACKENDS:
        pws = [32, 64] if b == 'rust' else [32]
        for (t, j) in pairs:
            up_txt, down_txt = casts[(t, j)][b], casts[(j, t)][b]
            rep.extra['emitted']['%s %s->%s' % (b, t, j)] = up_txt
            rep.extra['emitted']['%s %s->%s' % (b, j, t)] = down_txt
            fn = '%s Bitcast emitter (%s), abi::cast(%s,%s)=%s / cast(%s,%s)=%s' % (
                b, SRC[b], t, j, casts[(t, j)]['bitcast'], j, t, casts[(j, t)]['bitcast'])
            for kind in ('lift_side_is_wrap', 'round_trip', 'lower_side_keeps_payload_bits'):
                oid = 'emit.%s.%s<->%s.%s' % (b, t, j, kind)
                ob = Obligation(oid, fn, 'property', 'z3')
                try:
                    secs = 0.0
                    for p in pws:
                        tt = exprvc.types_for(b, p)
                        def T(core):
                            n = types[core][b]
                            n2 = n if n in tt else n.replace(' *', '*')
                            if n2 not in tt:
                                raise exprvc.Unsupported('backend type %r for %s is not in the %s type table' % (n, core, b))
                            return tt[n2]
                        Tt, Tj = T(t), T(j)
                        if Tt.width != width(t, p) or Tj.width != width(j, p):
                            raise exprvc.Unsupported('%s represents %s/%s with %d/%d bits at pointer width %d' % (b, t, j, Tt.width, Tj.width, p))
                        import time
                        t0 = time.time()
                        if kind == 'lift_side_is_wrap':
                            y = exprvc.Val('y', Tj)
                            dv, fresh = exprvc.translate(b, p, down_txt, {'x': y}, extra)
                            dv = store(dv, Tt)
                            goal = '(= %s %s)' % (dv.smt, exprvc.ext('y', Tj.width, Tt.width, False))
                            decls = [('y', Tj.width)] + fresh
                        elif kind == 'lower_side_keeps_payload_bits':
                            # implied by the other two when both texts are in the modelled subset; decided on its own so that a
                            # lowering that is wrong is refuted even when the lifting text is ill-typed / not modelled
                            x = exprvc.Val('x', Tt)
                            uv, fresh = exprvc.translate(b, p, up_txt, {'x': x}, extra)
                            uv = store(uv, Tj)
                            goal = '(= %s x)' % exprvc.ext(uv.smt, Tj.width, Tt.width, False)
                            decls = [('x', Tt.width)] + fresh
                        else:
                            x = exprvc.Val('x', Tt)
                            uv, fresh = exprvc.translate(b, p, up_txt, {'x': x}, extra)
                            uv = store(uv, Tj)
                            dv, fresh2 = exprvc.translate(b, p, down_txt, {'x': uv}, extra)
                            dv = store(dv, Tt)
                            goal = '(= %s x)' % dv.smt
                            decls = [('x', Tt.width)] + fresh + fresh2
                            # informational: what the lowering puts into the bits the spec's lift discards
                            if Tj.width > Tt.width and tier is not None:
                                r1, _, _ = exprvc.z3_check(decls, '(not (= %s %s))' % (uv.smt, exprvc.ext('x', Tt.width, Tj.width, False)))
                                how = 'zero-extends (as the spec)' if r1 == 'unsat' else None
                                if how is None:
                                    r2, _, _ = exprvc.z3_check(decls, '(not (= %s %s))' % (uv.smt, exprvc.ext('x', Tt.width, Tj.width, True)))
                                    how = 'sign-extends (upper bits differ from the spec when bit %d is set; the spec\'s lift discards them)' % (Tt.width - 1) if r2 == 'unsat' else 'other / unconstrained upper bits (the spec\'s lift discards them)'
                                rep.extra['lower_side_upper_bits']['%s %s->%s p%d' % (b, t, j, p)] = how
                        res, model, q = exprvc.z3_check(decls, '(not %s)' % goal)
                        secs += time.time() - t0
                        if res == 'unsat':
                            continue
                        if res == 'sat':
                            ob.status = 'failed'
                            var = 'y' if kind == 'lift_side_is_wrap' else 'x'
                            val = model.get(var, 0)
                            ob.replay = {'input': '%s = 0x%x (operand of type %s, pointer width %d)' % (var, val, Tj if var == 'y' else Tt, p),
                                         'emitted_lowering': up_txt, 'emitted_lifting': down_txt,
                                         'how': 'z3 model of the negated obligation over the emitted text; evaluated under the %s semantics table' % b,
                                         'smt_query': q}
                            ob.detail = ('%s: for %s = 0x%x the emitted %s does not %s (pointer width %d)\n lowering text: %s\n lifting text: %s' % (
                                oid, var, val, 'lifting expression' if var == 'y' else ('lowering expression' if kind == 'lower_side_keeps_payload_bits' else 'lowering followed by lifting'),
                                'return the low %d bits of the joined slot' % Tt.width if var == 'y' else ('keep the payload bits in the low bits of the joined slot' if kind == 'lower_side_keeps_payload_bits' else 'return the payload'), p, up_txt, down_txt))
                            break
                        raise exprvc.Unsupported('z3 answered %s: %s' % (res, model))
                    else:
                        ob.status = 'discharged'
                    ob.seconds = secs
                except exprvc.Unsupported as e:
                    ob.status = 'undecided'
                    ob.detail = 'emitted text outside the modelled subset: %s\n lowering text: %s\n lifting text: %s' % (e, up_txt, down_txt)
                rep.add(ob)
    # vacuity canary for the z3 route: a deliberately wrong expression must be refuted
    tt = exprvc.types_for('rust', 32)
    v, _ = exprvc.translate('rust', 32, 'x as i64', {'x': exprvc.Val('x', tt['i32'])})
    res, _, _ = exprvc.z3_check([('x', 32)], '(not (= %s %s))' % (v.smt, exprvc.ext('x', 32, 64, False)))
    rep.add(Obligation('canary.z3', 'false claim (`x as i64` zero-extends an i32) must be refuted', 'vacuity', 'z3',
                       status='discharged' if res == 'sat' else 'undecided', detail='' if res == 'sat' else 'z3 did not refute the canary'))
    rep.samples = [{'backend_pair': k, 'emitted': v} for k, v in list(rep.extra['emitted'].items())[:12]]


def run(rep, tier):
    rep.assume('spec side (TRUSTED, written from CanonicalABI.md join / lower_flat_variant / lift_flat_variant): a core value of type T is a '
               'bit-vector of width w(T); lowering into the joined slot keeps the value (reinterpret, zero-extend); lifting takes the low '
               'w(t) bits (wrap) and reinterprets. spec_join widens the spec join with wit-parser\'s Pointer/Length/PointerOrI64; '
               'wit-parser\'s own join/push_flat are not verified',
               'the meaning of each named Bitcast is read off its name (F32ToI64 converts an f32 slot value to an i64 slot value, ...)',
               'the bits above the payload width that a lowering writes into a wider slot are NOT required to be zero: the spec\'s lifting '
               'discards them, so no conforming host can observe them; what each backend writes there is reported under lower_side_upper_bits',
               'pointer width 32 for every backend (the only width their Length/Pointer types support), additionally 64 for Rust',
               'strictly typed target languages: when the emitted expression\'s type differs from the slot\'s type the value is taken as the '
               'language\'s explicit conversion would give (a type error in the target language is outside C04)',
               *exprvc.TRUSTED_TABLES)
    rep.trust(*exprvc.TRUSTED_TABLES)
    d = gen_cast_crate(rep)
    hs = [
        Harness('c04_join_closure', 'join.closure_under_further_cases', 'spec_join (harness) — induction step for "the slot type is above every case\'s type"', kind='support'),
        Harness('c04_cast_total_and_well_typed', 'cast.total_and_well_typed_on_joined_slots', 'cast (crates/core/src/abi.rs)'),
        Harness('c04_cast_semantics', 'cast.lower_lift_round_trip_match_spec', 'cast (crates/core/src/abi.rs)'),
    ]
    kani.run_harnesses(rep, d, hs, None, 'kani-c04', timeout_each=900, harness_file=os.path.join(VERIF, 'kani/c04/src/lib.rs'),
                       playback_features='values-only', guard=False)
    emitter_obligations(rep, tier)
