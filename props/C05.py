"""C05 (partial, bounded) — Rust guest bindings carry values across the boundary unchanged: Kani on the real generator's
output for a probe world, the harness playing the host at the core-ABI boundary (hand-written canonical encodings)."""
LEVEL = 'other'
import os
from vlib import kani
from vlib.kani import Harness
from . import rustgen

G = 'generated Rust export trampoline(s) for kani/rustgen_val/probe.wit (crates/rust/src/bindgen.rs emit arms, crates/rust/src/interface.rs generate_guest_export, crates/core/src/abi.rs lift/lower/write_to_memory as instantiated for this type) — '
FULL = 'one probe world, export direction only'
HEAP = FULL + '; list/string lengths 0..=2 (list<string>: <= 1 element of <= 1 byte), ASCII strings'
HARNESSES = [
    Harness('c05_record_unchanged_both_ways', 'value.record', G + 'record { u8, u32 }', bounded=FULL),
    Harness('c05_tuple_unchanged_both_ways', 'value.tuple', G + 'tuple<u8, u64>', bounded=FULL),
    Harness('c05_option_unchanged_both_ways', 'value.option', G + 'option<u32>', bounded=FULL),
    Harness('c05_result_unchanged_both_ways', 'value.result', G + 'result<u32, u8>', bounded=FULL),
    Harness('c05_flags_and_enum_unchanged_both_ways', 'value.flags_and_enum', G + 'flags, enum', bounded=FULL),
    Harness('c05_variant_numeric_cases_unchanged_both_ways', 'value.variant_numeric_cases', G + 'variant with u32 / u64 / string cases (joined 64-bit-or-pointer slot), numeric cases', bounded=FULL),
    Harness('c05_variant_string_unchanged_both_ways', 'value.variant_string_case', G + 'variant, string case', bounded=HEAP),
    Harness('c05_string_unchanged_both_ways', 'value.string', G + 'string', bounded=HEAP),
    Harness('c05_list_u8_unchanged_both_ways', 'value.list_u8', G + 'list<u8> (canonical list)', bounded=HEAP),
    Harness('c05_list_u32_unchanged_both_ways', 'value.list_u32', G + 'list<u32> (canonical list)', bounded=HEAP),
    Harness('c05_list_of_pairs_unchanged_both_ways', 'value.list_of_tuples', G + 'list<tuple<u8, u32, u8>> (element-wise list: a Rust tuple is not canonical)', bounded=HEAP),
]
# about nine minutes of CBMC: thorough tier only
THOROUGH = [
    Harness('c05_list_of_strings_unchanged_both_ways', 'value.list_of_strings', G + 'list<string> (element-wise list)', bounded=HEAP),
]
ASSUME = ['PARTIAL and BOUNDED: the claim is about the bindings the real generator produces for ONE probe world (kani/rustgen_val/probe.wit), in the export '
          'direction (host -> lift -> user function -> lower -> host); imports use the same emit arms but their glue is not driven here',
          'the "independent host" is the harness: it lowers parameters and reads results by hand following CanonicalABI.md (flattening, joined variant '
          'slots, alignment/size, discriminant widths) with this target\'s pointer size (64-bit; the generator computes offsets with '
          'size_of::<*const u8>(), so the wasm32 layout is the same code with P = 4); hand-written encodings are trusted',
          'scalars inside aggregates range over their full domain; list and string lengths are bounded as stated per obligation',
          'std\'s UTF-8 validation (String::from_utf8) is replaced by a trusted stub and only valid UTF-8 (ASCII) is sent',
          'not covered: imports, async, resources (C07), nested variants/records beyond the probe, fixed-length lists, maps, strings > 2 bytes']


def run(rep, tier):
    rep.assume(*ASSUME)
    d = rustgen.generate(rep, 'rustgen_val', mock=True)
    hs = HARNESSES + (THOROUGH if tier == 'thorough' else [])
    if tier != 'thorough':
        rep.notes.append('the list<string> obligation (nested element-wise list, ~9 min of CBMC) runs in the thorough tier only')
    kani.run_harnesses(rep, d, hs, None, 'kani-rustgen', timeout_each=900, harness_file=os.path.join(d, 'src/lib.rs'),
                       playback_features='values-only', guard=False)
