"""C05 (partial, bounded) — Rust guest bindings carry values across the boundary unchanged: Kani on the real generator's
output for a probe world, the harness playing the host at the core-ABI boundary (hand-written canonical encodings)."""
LEVEL = 'other'
import os, re
from vlib import kani
from vlib.kani import Harness
from . import rustgen

G = 'generated Rust export trampoline(s) for kani/rustgen_val/probe.wit (crates/rust/src/bindgen.rs emit arms, crates/rust/src/interface.rs generate_guest_export, crates/core/src/abi.rs lift/lower/write_to_memory as instantiated for this type) — '
FULL = 'one probe world, export direction only'
HEAP = FULL + '; list/string lengths 0..=2 (lists of strings / of records: the list length is fixed per obligation at 0, 1 or 2, element strings <= 1 byte), ASCII strings'
HARNESSES = [
    Harness('c05_record_unchanged_both_ways', 'value.record', G + 'record { u8, u32 }', bounded=FULL),
    Harness('c05_tuple_unchanged_both_ways', 'value.tuple', G + 'tuple<u8, u64>', bounded=FULL),
    Harness('c05_option_unchanged_both_ways', 'value.option', G + 'option<u32>', bounded=FULL),
    Harness('c05_result_unchanged_both_ways', 'value.result', G + 'result<u32, u8>', bounded=FULL),
    Harness('c05_c06_import_string_and_list_passed_by_reference', 'value.import_string_and_list_passed_by_reference', G.replace('export trampoline(s)', 'import wrapper') + 'string and list<u32> passed to an import (borrowed: no copy, nothing freed)', bounded=HEAP.replace('export direction only', 'import direction')),
    Harness('c05_scalar_record_unchanged_both_ways', 'value.scalar_record', G + 'record { bool, char, s8, s16, s64, f32, f64 }', bounded=FULL),
    Harness('c05_flags_32_and_nested_option_unchanged_both_ways', 'value.flags_32_and_nested_option', G + 'flags with 32 members; option<option<u8>>', bounded=FULL),
    Harness('c05_result_with_one_payload_unchanged_both_ways', 'value.result_one_payload', G + 'result<u32> and result<_, u8>', bounded=FULL),
    Harness('c05_flags_and_enum_unchanged_both_ways', 'value.flags_and_enum', G + 'flags, enum', bounded=FULL),
    Harness('c05_variant_numeric_cases_unchanged_both_ways', 'value.variant_numeric_cases', G + 'variant with u32 / u64 / string cases (joined 64-bit-or-pointer slot), numeric cases', bounded=FULL),
    Harness('c05_f32_in_wide_variant_export_unchanged', 'value.f32_in_wide_variant_export', G + 'variant { f32, u64, f64 } through an export, every bit pattern', bounded=FULL),
    Harness('c05_f32_in_wide_variant_import_unchanged', 'value.f32_in_wide_variant_import', G.replace('export trampoline(s)', 'import wrapper') + 'variant { f32, u64, f64 } passed to and returned from an import, every bit pattern', bounded=FULL.replace('export direction only', 'import direction')),
    Harness('c05_variant_string_unchanged_both_ways', 'value.variant_string_case', G + 'variant, string case', bounded=HEAP),
    Harness('c05_string_unchanged_both_ways', 'value.string', G + 'string', bounded=HEAP),
    Harness('c05_list_u8_unchanged_both_ways', 'value.list_u8', G + 'list<u8> (canonical list)', bounded=HEAP),
    Harness('c05_list_u32_unchanged_both_ways', 'value.list_u32', G + 'list<u32> (canonical list)', bounded=HEAP),
    Harness('c05_list_of_pairs_unchanged_both_ways', 'value.list_of_tuples', G + 'list<tuple<u8, u32, u8>> (element-wise list: a Rust tuple is not canonical)', bounded=HEAP),
    Harness('c05_record_with_heap_fields_unchanged_both_ways', 'value.record_with_heap_fields', G + 'record { u16, string, list<u8>, u8 }', bounded=HEAP),
    Harness('c05_result_with_string_unchanged_both_ways', 'value.result_with_string', G + 'result<string, u32> (pointer-or-i32 joined slot)', bounded=HEAP),
    Harness('c05_list_of_mixed_records_result_len0', 'value.list_of_mixed_records_result_len0', G + 'list<record { u64, string }> (element size 8+2P: byte part and pointer part), empty result', bounded=HEAP),
    Harness('c05_list_of_mixed_records_result_len1', 'value.list_of_mixed_records_result_len1', G + 'list<record { u64, string }> (element size 8+2P: byte part and pointer part), 1 element returned', bounded=HEAP),
    Harness('c05_list_of_mixed_records_param_len1', 'value.list_of_mixed_records_param_len1', G + 'list<record { u64, string }> (element size 8+2P: byte part and pointer part), 1 element sent', bounded=HEAP),
    Harness('c05_list_of_mixed_records_result_len2', 'value.list_of_mixed_records_result_len2', G + 'list<record { u64, string }> (element size 8+2P: byte part and pointer part), 2 elements returned', bounded=HEAP),
    Harness('c05_list_of_mixed_records_param_len2', 'value.list_of_mixed_records_param_len2', G + 'list<record { u64, string }> (element size 8+2P: byte part and pointer part), 2 elements sent', bounded=HEAP),
    Harness('c05_list_of_strings_result_len0', 'value.list_of_strings_result_len0', G + 'list<string> (element-wise list), empty result', bounded=HEAP),
    Harness('c05_list_of_strings_result_len1', 'value.list_of_strings_result_len1', G + 'list<string> (element-wise list), 1 element returned', bounded=HEAP),
    Harness('c05_list_of_strings_result_len2', 'value.list_of_strings_result_len2', G + 'list<string> (element-wise list), 2 elements returned', bounded=HEAP),
    Harness('c05_list_of_strings_param_len1', 'value.list_of_strings_param_len1', G + 'list<string> (element-wise list), 1 element sent', bounded=HEAP),
    Harness('c05_list_of_strings_param_len2', 'value.list_of_strings_param_len2', G + 'list<string> (element-wise list), 2 elements sent', bounded=HEAP),
    Harness('c05_import_result_list_of_strings_len0', 'value.import_result_list_of_strings_len0', G.replace('export trampoline(s)', 'import wrapper') + 'list<string> RETURNED by an import, 0 element(s)', bounded=HEAP.replace('export direction only', 'import direction')),
    Harness('c05_import_result_list_of_strings_len1', 'value.import_result_list_of_strings_len1', G.replace('export trampoline(s)', 'import wrapper') + 'list<string> RETURNED by an import, 1 element(s)', bounded=HEAP.replace('export direction only', 'import direction')),
    Harness('c05_import_result_list_of_strings_len2', 'value.import_result_list_of_strings_len2', G.replace('export trampoline(s)', 'import wrapper') + 'list<string> RETURNED by an import, 2 element(s)', bounded=HEAP.replace('export direction only', 'import direction')),
]
# thorough tier: three elements each way for the nested lists
THOROUGH = [
    Harness('c05_list_of_strings_result_len3', 'value.list_of_strings_result_len3', G + 'list<string> (element-wise list), 3 elements returned', bounded=HEAP.replace('0, 1 or 2', '3')),
    Harness('c05_list_of_strings_param_len3', 'value.list_of_strings_param_len3', G + 'list<string> (element-wise list), 3 elements sent', bounded=HEAP.replace('0, 1 or 2', '3')),
    Harness('c05_list_of_mixed_records_result_len3', 'value.list_of_mixed_records_result_len3', G + 'list<record { u64, string }>, 3 elements returned', bounded=HEAP.replace('0, 1 or 2', '3')),
    Harness('c05_list_of_mixed_records_param_len3', 'value.list_of_mixed_records_param_len3', G + 'list<record { u64, string }>, 3 elements sent', bounded=HEAP.replace('0, 1 or 2', '3')),
]
ASSUME = ['PARTIAL and BOUNDED: the claim is about the bindings the real generator produces for ONE probe world (kani/rustgen_val/probe.wit), in the export '
          'direction (host -> lift -> user function -> lower -> host); imports use the same emit arms but their glue is not driven here',
          'the "independent host" is the harness: it lowers parameters and reads results by hand following CanonicalABI.md (flattening, joined variant '
          'slots, alignment/size, discriminant widths) with this target\'s pointer size (64-bit; the generator computes offsets with '
          'size_of::<*const u8>(), so the wasm32 layout is the same code with P = 4); hand-written encodings are trusted',
          'scalars inside aggregates range over their full domain; list and string lengths are bounded as stated per obligation',
          'std\'s UTF-8 validation (String::from_utf8) is replaced by a trusted stub and only valid UTF-8 (ASCII) is sent',
          'not covered: imports, async, resources (C07), nested variants/records beyond the probe, fixed-length lists, maps, strings > 2 bytes']

GM = 'generated Rust bindings for kani/rustgen_map/probe.wit with --map-type crate::VecMap (crates/rust/src/bindgen.rs MapLift / MapLower / IterMapKey / IterMapValue / GuestDeallocateMap arms) — '
MAPB = 'one probe world; the map type is the harness\'s vector of pairs (the generator\'s --map-type option; the default BTreeMap does not get through CBMC); number of entries fixed per obligation at 0, 1 or 2, keys <= 1 ASCII byte'
MAP_HARNESSES = [
    Harness('c05_map_result_len0', 'value.map_result_len0', GM + 'map<string, u32> through an export, empty result', bounded=MAPB),
    Harness('c05_map_result_len1', 'value.map_result_len1', GM + 'map<string, u32> through an export, 1 entry returned', bounded=MAPB),
    Harness('c05_map_result_len2', 'value.map_result_len2', GM + 'map<string, u32> through an export, 2 entries returned', bounded=MAPB),
    Harness('c05_map_param_len1', 'value.map_param_len1', GM + 'map<string, u32> through an export, 1 entry sent', bounded=MAPB),
    Harness('c05_map_param_len2', 'value.map_param_len2', GM + 'map<string, u32> through an export, 2 entries sent', bounded=MAPB),
]


def run(rep, tier):
    rep.assume(*ASSUME)
    d = rustgen.generate(rep, 'rustgen_val', mock=True)
    hs = HARNESSES + (THOROUGH if tier == 'thorough' else [])
    if os.environ.get('VERIF_ONLY'):   # development aid: run a subset (never used by the registered commands)
        import re
        hs = [h for h in hs if re.search(os.environ['VERIF_ONLY'], h.name)]
    mh = MAP_HARNESSES
    if os.environ.get('VERIF_ONLY'):
        mh = [h for h in mh if re.search(os.environ['VERIF_ONLY'], h.name)]
    if mh:
        dm = rustgen.generate(rep, 'rustgen_map', extra_args=['--map-type', 'crate::VecMap'], mock=True)
        kani.run_harnesses(rep, dm, mh, None, 'kani-rustgen', timeout_each=900, harness_file=os.path.join(dm, 'src/lib.rs'), playback_features='values-only', guard=False, canary_id='canary.kani.map')
    if not hs:
        return
    kani.run_harnesses(rep, d, hs, None, 'kani-rustgen', timeout_each=900, harness_file=os.path.join(d, 'src/lib.rs'),
                       playback_features='values-only', guard=False)
