"""C06 (partial, bounded) — Rust guest bindings neither leak nor double-free: Kani on the real generator's output for a probe
world with every heap block going through a ledger (stubs on the allocator entry points)."""
LEVEL = 'other'
import os, re
from vlib import kani
from vlib.kani import Harness
from . import rustgen
from .C05 import G, HEAP, ASSUME

HARNESSES = [
    Harness('c06_string_memory_balanced', 'heap.string_param_and_result', G + 'string: Vec::from_raw_parts take-over, result buffer, __post_return', bounded=HEAP),
    Harness('c06_list_u8_memory_balanced', 'heap.list_u8_param_and_result', G + 'list<u8>', bounded=HEAP),
    Harness('c06_list_u32_memory_balanced', 'heap.list_u32_param_and_result', G + 'list<u32> (element size 4, alignment 4)', bounded=HEAP),
    Harness('c06_variant_string_memory_balanced', 'heap.variant_string_case', G + 'variant whose string case owns a buffer: post-return frees exactly when the result holds one', bounded=HEAP),
    Harness('c06_list_of_pairs_memory_balanced', 'heap.list_of_tuples', G + 'list<tuple<u8, u32, u8>>: host buffer freed by the guest after conversion, result buffer freed by post-return', bounded=HEAP),
    Harness('c06_import_nested_list_scratch_alive_during_call_freed_once', 'heap.import_nested_list_scratch_alive_during_call_freed_once', G + 'import with option<list<string>>: ListLower + Cleanup / cleanup_list scoping (crates/rust/src/bindgen.rs)', bounded=HEAP),
    Harness('c06_record_with_heap_fields_memory_balanced', 'heap.record_with_heap_fields', G + 'record with a string and a list field: both buffers taken over / released', bounded=HEAP),
    Harness('c06_result_with_string_memory_balanced', 'heap.result_with_string', G + 'result<string, u32>: post-return frees exactly when the result is ok', bounded=HEAP),
    Harness('c06_list_of_mixed_records_result_len0', 'heap.list_of_mixed_records_result_len0', G + 'list<record { u64, string }>: elements and list freed with the sizes they were allocated with, empty result', bounded=HEAP),
    Harness('c06_list_of_mixed_records_result_len1', 'heap.list_of_mixed_records_result_len1', G + 'list<record { u64, string }>: elements and list freed with the sizes they were allocated with, 1 element returned', bounded=HEAP),
    Harness('c06_list_of_mixed_records_param_len1', 'heap.list_of_mixed_records_param_len1', G + 'list<record { u64, string }>: elements and list freed with the sizes they were allocated with, 1 element sent', bounded=HEAP),
    Harness('c06_list_of_mixed_records_result_len2', 'heap.list_of_mixed_records_result_len2', G + 'list<record { u64, string }>: elements and list freed with the sizes they were allocated with, 2 elements returned', bounded=HEAP),
    Harness('c06_list_of_mixed_records_param_len2', 'heap.list_of_mixed_records_param_len2', G + 'list<record { u64, string }>: elements and list freed with the sizes they were allocated with, 2 elements sent', bounded=HEAP),
    Harness('c06_list_of_strings_result_len0', 'heap.list_of_strings_result_len0', G + 'list<string> (element-wise list), empty result', bounded=HEAP),
    Harness('c06_list_of_strings_result_len1', 'heap.list_of_strings_result_len1', G + 'list<string> (element-wise list), 1 element returned', bounded=HEAP),
    Harness('c06_list_of_strings_result_len2', 'heap.list_of_strings_result_len2', G + 'list<string> (element-wise list), 2 elements returned', bounded=HEAP),
    Harness('c06_list_of_strings_param_len1', 'heap.list_of_strings_param_len1', G + 'list<string> (element-wise list), 1 element sent', bounded=HEAP),
    Harness('c06_list_of_strings_param_len2', 'heap.list_of_strings_param_len2', G + 'list<string> (element-wise list), 2 elements sent', bounded=HEAP),
    Harness('c06_import_result_list_of_strings_len1', 'heap.import_result_list_of_strings_len1', G.replace('export trampoline(s)', 'import wrapper') + 'list<string> returned by an import (1 element(s)): taken over by the guest, everything released once when the value is dropped', bounded=HEAP),
    Harness('c06_import_result_list_of_strings_len2', 'heap.import_result_list_of_strings_len2', G.replace('export trampoline(s)', 'import wrapper') + 'list<string> returned by an import (2 element(s)): taken over by the guest, everything released once when the value is dropped', bounded=HEAP),
]
# c06_import_result_list_of_strings_len0 exists in the harness crate but is NOT run: for an empty list Kani reports that the `Vec::with_capacity(0)` inside the
# generated wrapper has capacity 1 and is freed on drop although nothing was allocated; the same call made natively (a #[test] in the same crate) returns
# capacity 0 and frees nothing, so the counterexample does not replay on the real code: a tool artefact, treated as undecided, not as a violation (DESIGN 9.19).
# The empty case is covered for values (C05) and, for the C backend, by C11's import-result obligation (lengths 0..=2).
# thorough tier: three elements each way for the nested lists
THOROUGH = [
    Harness('c06_list_of_strings_result_len3', 'heap.list_of_strings_result_len3', G + 'list<string> (element-wise list), 3 elements returned', bounded=HEAP.replace('0, 1 or 2', '3')),
    Harness('c06_list_of_strings_param_len3', 'heap.list_of_strings_param_len3', G + 'list<string> (element-wise list), 3 elements sent', bounded=HEAP.replace('0, 1 or 2', '3')),
    Harness('c06_list_of_mixed_records_result_len3', 'heap.list_of_mixed_records_result_len3', G + 'list<record { u64, string }>, 3 elements returned', bounded=HEAP.replace('0, 1 or 2', '3')),
    Harness('c06_list_of_mixed_records_param_len3', 'heap.list_of_mixed_records_param_len3', G + 'list<record { u64, string }>, 3 elements sent', bounded=HEAP.replace('0, 1 or 2', '3')),
]

GM = 'generated Rust bindings for kani/rustgen_map/probe.wit with --map-type crate::VecMap (crates/rust/src/bindgen.rs MapLift / MapLower / IterMapKey / IterMapValue / GuestDeallocateMap arms) — '
MAPB = 'one probe world; the map type is the harness\'s vector of pairs (the generator\'s --map-type option; the default BTreeMap does not get through CBMC); number of entries fixed per obligation at 0, 1 or 2, keys <= 1 ASCII byte'
MAP_HARNESSES = [
    Harness('c06_map_result_len0', 'heap.map_result_len0', GM + 'map<string, u32> through an export, empty result', bounded=MAPB),
    Harness('c06_map_result_len1', 'heap.map_result_len1', GM + 'map<string, u32> through an export, 1 entry returned', bounded=MAPB),
    Harness('c06_map_result_len2', 'heap.map_result_len2', GM + 'map<string, u32> through an export, 2 entries returned', bounded=MAPB),
    Harness('c06_map_param_len1', 'heap.map_param_len1', GM + 'map<string, u32> through an export, 1 entry sent', bounded=MAPB),
    Harness('c06_map_param_len2', 'heap.map_param_len2', GM + 'map<string, u32> through an export, 2 entries sent', bounded=MAPB),
    Harness('c06_import_nested_map_scratch_len0', 'heap.import_nested_map_scratch_len0', GM + 'import with option<map<string, u32>> of 0 entries: scratch buffer alive during the call, freed once, borrowed map untouched', bounded=MAPB),
    Harness('c06_import_nested_map_scratch_len1', 'heap.import_nested_map_scratch_len1', GM + 'import with option<map<string, u32>> of 1 entries: scratch buffer alive during the call, freed once, borrowed map untouched', bounded=MAPB),
    Harness('c06_import_nested_map_scratch_len2', 'heap.import_nested_map_scratch_len2', GM + 'import with option<map<string, u32>> of 2 entries: scratch buffer alive during the call, freed once, borrowed map untouched', bounded=MAPB),
]


def run(rep, tier):
    rep.assume(*ASSUME)
    rep.assume('heap ledger: alloc / dealloc / realloc (and std\'s private dealloc_nonnull / realloc_nonnull) are replaced by stubs that record '
               '(pointer, size, alignment); a block handed to the guest by the host (what the host obtains from cabi_realloc) is entered the same way. '
               'Observed: freed twice, freed with a layout other than the one it was allocated with, anything left allocated after post-return. '
               'Because a stub cannot call the function it replaces, memory is never returned to the model: a read after free is NOT observed; '
               'out-of-bounds accesses are (CBMC pointer checks).')
    d = rustgen.generate(rep, 'rustgen_val', mock=True)
    hs = HARNESSES + (THOROUGH if tier == 'thorough' else [])
    if os.environ.get('VERIF_ONLY'):   # development aid: run a subset (never used by the registered commands)
        import re
        hs = [h for h in hs if re.search(os.environ['VERIF_ONLY'], h.name)]
    mh = MAP_HARNESSES
    if os.environ.get('VERIF_ONLY'):
        mh = [h for h in mh if re.search(os.environ['VERIF_ONLY'], h.name)]
    if mh:
        dm = rustgen.generate(rep, 'rustgen_map', extra_args=['--map-type', 'crate::VecMap'], mock=True)
        kani.run_harnesses(rep, dm, mh, None, 'kani-rustgen', timeout_each=900, harness_file=os.path.join(dm, 'src/lib.rs'), playback_features='values-only', guard=False, canary_id='canary.kani.map')
    if not hs:
        return
    kani.run_harnesses(rep, d, hs, None, 'kani-rustgen', timeout_each=900, harness_file=os.path.join(d, 'src/lib.rs'),
                       playback_features='values-only', guard=False)
