"""C06 (partial, bounded) — Rust guest bindings neither leak nor double-free: Kani on the real generator's output for a probe
world with every heap block going through a ledger (stubs on the allocator entry points)."""
LEVEL = 'other'
import os
from vlib import kani
from vlib.kani import Harness
from . import rustgen
from .C05 import G, HEAP, ASSUME

HARNESSES = [
    Harness('c06_string_memory_balanced', 'heap.string_param_and_result', G + 'string: Vec::from_raw_parts take-over, result buffer, __post_return', bounded=HEAP),
    Harness('c06_list_u8_memory_balanced', 'heap.list_u8_param_and_result', G + 'list<u8>', bounded=HEAP),
    Harness('c06_list_u32_memory_balanced', 'heap.list_u32_param_and_result', G + 'list<u32> (element size 4, alignment 4)', bounded=HEAP),
    Harness('c06_variant_string_memory_balanced', 'heap.variant_string_case', G + 'variant whose string case owns a buffer: post-return frees exactly when the result holds one', bounded=HEAP),
    Harness('c06_list_of_pairs_memory_balanced', 'heap.list_of_tuples', G + 'list<tuple<u8, u32, u8>>: host buffer freed by the guest after conversion, result buffer freed by post-return', bounded=HEAP),
    Harness('c06_import_nested_list_scratch_alive_during_call_freed_once', 'heap.import_nested_list_scratch_alive_during_call_freed_once', G + 'import with option<list<string>>: ListLower + Cleanup / cleanup_list scoping (crates/rust/src/bindgen.rs)', bounded=HEAP),
]
# about nine minutes of CBMC: thorough tier only
THOROUGH = [
    Harness('c06_list_of_strings_memory_balanced', 'heap.list_of_strings', G + 'list<string>: host list buffer freed by the guest, element buffers taken over, result list + elements freed by post-return', bounded=HEAP),
]


def run(rep, tier):
    rep.assume(*ASSUME)
    rep.assume('heap ledger: alloc / dealloc / realloc (and std\'s private dealloc_nonnull / realloc_nonnull) are replaced by stubs that record '
               '(pointer, size, alignment); a block handed to the guest by the host (what the host obtains from cabi_realloc) is entered the same way. '
               'Observed: freed twice, freed with a layout other than the one it was allocated with, anything left allocated after post-return. '
               'Because a stub cannot call the function it replaces, memory is never returned to the model: a read after free is NOT observed; '
               'out-of-bounds accesses are (CBMC pointer checks).')
    d = rustgen.generate(rep, 'rustgen_val', mock=True)
    hs = HARNESSES + (THOROUGH if tier == 'thorough' else [])
    if tier != 'thorough':
        rep.notes.append('the list<string> obligation (nested element-wise list, ~9 min of CBMC) runs in the thorough tier only')
    kani.run_harnesses(rep, d, hs, None, 'kani-rustgen', timeout_each=900, harness_file=os.path.join(d, 'src/lib.rs'),
                       playback_features='values-only', guard=False)
