"""C07 (partial) — resource and handle ownership in generated Rust bindings: Kani on the real generator's output for a
probe world (imported resource with owned/borrowed parameters and owned results; exported resource)."""
import os
from vlib import kani
from vlib.kani import Harness
from . import rustgen

G = 'generated Rust bindings for kani/rustgen_res/probe.wit — '
HARNESSES = [
    Harness('c07_resource_item_owned_handle_dropped_once', 'resource_item.owned_handle_dropped_exactly_once', G + '_rt::Resource<T> (RuntimeItem::ResourceType, crates/rust/src/lib.rs)'),
    Harness('c07_resource_item_taken_handle_never_dropped', 'resource_item.given_away_handle_never_used_or_dropped', G + '_rt::Resource<T>::{take_handle, handle, drop}'),
    Harness('c07_import_owned_argument_transferred_exactly_once', 'import.owned_argument_transferred_once_not_dropped', G + 'import glue, HandleLower own (crates/rust/src/bindgen.rs, interface.rs)'),
    Harness('c07_import_borrowed_argument_never_dropped_by_the_call', 'import.borrowed_argument_and_self_never_dropped_by_call', G + 'import glue, HandleLower borrow / method self'),
    Harness('c07_import_owned_result_dropped_exactly_once', 'import.owned_result_dropped_once_with_its_value', G + 'import glue, HandleLift own (function result, constructor)'),
    Harness('c07_import_mixed_owned_and_borrowed_arguments', 'import.mixed_owned_borrowed_arguments', G + 'import glue, static function with own + borrow parameters'),
    Harness('c07_export_owned_parameter_dropped_once_when_user_drops_it', 'export.owned_parameter_dropped_once_with_its_value', G + 'export trampoline, HandleLift own of an exported resource'),
    Harness('c07_export_result_handle_transferred_not_dropped', 'export.new_resource_transferred_reached_through_handles_destroyed_once', G + 'type_resource: Counter::{new,get,dtor,type_guard}, CounterBorrow::{lift,get}, constructor/give trampolines, ResourceRep for Option<T> (crates/guest-rust/src/resource.rs)'),
    Harness('c07_export_into_inner_moves_value_out_destroyed_once', 'export.into_inner_moves_value_out_destroyed_once', G + 'Counter::{into_inner, dtor}, ResourceRep::rep_take for Option<T> (crates/guest-rust/src/resource.rs)'),
    Harness('c07_import_list_of_owned_handles_transferred_not_dropped', 'import.list_of_owned_handles_transferred_not_dropped', G + 'import glue for list<own<thing>> (is_list_canonical / ListLower / HandleLower own, crates/rust/src/interface.rs, bindgen.rs)', bounded='lists of one or two handles'),
    Harness('c07_import_owned_handle_in_record_transferred_not_dropped', 'import.owned_handle_in_record_transferred_not_dropped', G + 'import glue for record { own<thing>, u32 } (RecordLower + HandleLower own)'),
    Harness('c07_import_owned_handle_in_option_and_result_dropped_once', 'import.owned_handle_in_option_and_result_dropped_once', G + 'import glue for option<own<thing>> / result<own<thing>, u32> results (OptionLift / ResultLift + HandleLift own)'),
    Harness('c07_import_borrowed_handle_in_tuple_never_dropped_by_the_call', 'import.borrowed_handle_in_tuple_never_dropped_by_call', G + 'import glue for tuple<borrow<thing>, u32>'),
    Harness('c07_export_lent_borrow_of_imported_resource_released_once_after_the_call', 'export.lent_borrow_of_imported_resource_released_once_after_call', G + 'export trampoline for borrow<imported resource> (handle_decls scoping: the temporary owner lives until the user function returned)'),
    Harness('c07_export_owned_imported_resource_dropped_once_by_its_owner', 'export.owned_imported_resource_dropped_once_by_owner', G + 'export trampoline for own<imported resource>'),
    Harness('c07_export_owned_handle_in_option_parameter', 'export.owned_handle_in_option_parameter', G + 'export trampoline for option<own<counter>>'),
    Harness('c07_export_borrow_of_exported_resource_through_alias_touches_no_handle', 'export.borrow_of_exported_resource_through_alias_touches_no_handle', G + 'export trampolines of a second exported interface that uses the exported resource through an alias (is_exported_resource / HandleLift borrow)'),
]


def run(rep, tier):
    rep.assume('PARTIAL: the claim is about the bindings the real generator produces for ONE probe world (kani/rustgen_res/probe.wit): an imported '
               'resource used as owned parameter, borrowed parameter, method self, owned result and constructor result, and an exported resource with '
               'constructor, method, owned/borrowed parameters and owned result; all u32 handle values except the reserved 0 and u32::MAX',
               'the component-model host is a logging mock (hand-written): it records every handle passed to an import, every resource-drop, '
               'resource-new and resource-rep; what the real host does with its tables is not covered',
               'rule R1: the generated native import stand-ins `{ unreachable!() }` call the mock host (the only edit to generated text)',
               '64-bit verification target: the two export trampolines that receive a borrowed exported resource as a core i32 truncate the '
               'pointer to 32 bits (identity on wasm32 only), so the generated CounterBorrow/Counter accessors are driven directly instead',
               'not covered: async functions, futures/streams/error-context handles, handles nested more than one level deep',
               'a borrow of an IMPORTED resource lent to an export is released by the bindings exactly once after the user function returned: that is what '
               'CanonicalABI.md requires of the callee (exit_call traps on an outstanding lent handle); the property\'s "borrowed handles are never '
               'dropped by the guest" is read as: never by the user, never early, never twice')
    d = rustgen.generate(rep, 'rustgen_res', mock=True)
    # text obligation, decided before anything is compiled: a borrow of an EXPORTED resource - by whatever name the function's interface
    # reaches it - is typed as the generated `<R>Borrow<'_>` (the representation), never as `&<R>` (a handle-owning value, which the
    # trampoline would have to fabricate from the pointer and drop afterwards)
    import re
    from vlib.common import Obligation
    text = open(os.path.join(d, 'src/probe.rs')).read()
    ob = Obligation('export.borrow_of_exported_resource_is_typed_as_its_representation', G + 'trait methods generated for exp.look, exp2.look-again, exp2.maybe-look '
                    '(crates/rust/src/interface.rs is_exported_resource / print_ty for borrow handles)', 'property', 'text-spec')
    want = {'look': r"c: CounterBorrow<'_>", 'look_again': r"c: CounterBorrow<'_>", 'maybe_look': r"c: ::core::option::Option<CounterBorrow<'_>>"}
    bad, missing = [], []
    for fn, ty in want.items():
        m = re.search(r'\bfn %s\(([^)]*)\)\s*->\s*u32;' % fn, text)
        if not m:
            missing.append(fn)
        elif re.sub(r'\s+', '', m.group(1)).rstrip(',') != re.sub(r'\s+', '', ty):
            bad.append('%s(%s), expected (%s)' % (fn, m.group(1).strip(), ty))
    if missing:
        ob.status, ob.detail = 'undecided', 'generated trait methods not found: %s' % missing
    elif bad:
        ob.status = 'failed'
        ob.detail = 'a borrow of an exported resource is not typed as its representation: ' + '; '.join(bad)
        ob.replay = {'input': 'kani/rustgen_res/probe.wit', 'function': 'crates/rust/src/interface.rs (type printed for borrow<exported resource>)',
                     'how': 'run the real generator (`wit-bindgen rust kani/rustgen_res/probe.wit`) and read the Guest trait methods in the output', 'observed': bad}
    else:
        ob.status = 'discharged'
    rep.add(ob)
    kani.run_harnesses(rep, d, HARNESSES, None, 'kani-rustgen', timeout_each=600, harness_file=os.path.join(d, 'src/lib.rs'),
                       playback_features='values-only', guard=False)
