"""C08 (partial, bounded) — async imports/exports as the Rust generator binds them, on the real runtime (Kani, in-crate)."""
LEVEL = 'other'
import os, shutil
from vlib import kani
from vlib.kani import Harness, target_lock
from vlib.common import BUILD_ROOT
from . import rt_common as rc
from . import rustgen

G = 'generated async bindings for kani/rustgen_async/probe.wit (crates/rust/src/interface.rs generate_guest_import_body_async / async generate_guest_export; crates/rust/src/bindgen.rs AsyncTaskReturn) on the real runtime start_task / callback / Subtask::call — '
B = 'one probe world (u32 and string), the call completes in its first step (no pending state); strings <= 2 ASCII bytes'
HARNESSES = [
    Harness('c08_async_export_scalar_result_through_task_return_once', 'export.scalar_result_through_task_return_exactly_once', G + 'async export compute(u32) -> u32', bounded=B),
    Harness('c08_async_import_scalar_immediate_return', 'import.scalar_one_core_call_result_lifted', G + 'async import fetch(u32) -> u32', bounded=B),
]
STRINGS = [Harness('c08_async_export_string_len%d_same_bytes_as_sync' % n, 'export.string_len%d_same_bytes_as_sync' % n, G + 'async export shout(string) -> string, %d byte(s)' % n, bounded=B) for n in (0, 1, 2)] + \
          [Harness('c08_async_import_string_len%d_params_alive_during_call' % n, 'import.string_len%d_params_alive_during_call' % n, G + 'async import greet(string) -> string, %d byte(s)' % n, bounded=B) for n in (0, 1, 2)]
# written (harness/c08.rs) but beyond CBMC here (out of memory): String + executor + Box<dyn Future>; listed as not covered
GS = 'generated Subtask implementation of an async import (crates/rust/src/interface.rs generate_guest_import_body_async: abi_layout, results_offset, params_lower, call_import, params_dealloc_lists, params_dealloc_lists_and_own, results_lift), copied out of the import function by rule R2 — '
BS = 'one probe world; strings / lists of <= 2 bytes, list<record> of <= 1 element; the callbacks are called in the order the runtime uses (C21 proves that order for every host schedule)'
CALLBACKS = [
    Harness('c08_import_callbacks_flat_string', 'import.callbacks_flat_string', GS + 'greet(string) -> string (flat parameters)', bounded=BS),
    Harness('c08_import_callbacks_indirect_params', 'import.callbacks_indirect_params', GS + 'store(string, list<u8>, u32) -> list<u8> (parameters in the block)', bounded=BS),
    Harness('c08_import_callbacks_result_slot_aligned_after_parameter_record', 'import.callbacks_result_slot_aligned', GS + 'wide(u32 x5) -> u64 and narrow(u8 x5) -> u32: results_offset / abi_layout when the result is more strictly aligned than the parameter record', bounded='one probe world; all parameter and result values'),
    Harness('c08_import_callbacks_list_of_records_empty', 'import.callbacks_list_of_records_empty', GS + 'many(list<record { u64, string }>) -> u32, empty list', bounded=BS),
    Harness('c08_import_callbacks_list_of_records_one', 'import.callbacks_list_of_records_one', GS + 'many(list<record { u64, string }>) -> u32, one element', bounded=BS),
]
NOT_FINISHING = [h.name for h in STRINGS]   # also with the length fixed per harness (tried: 0.60 of 62 GB after 4 min, then killed)


def run(rep, tier):
    rep.assume(*rc.HOST_ASSUMPTIONS)
    rep.assume('PARTIAL and BOUNDED: one probe world; only calls that complete in their first step (export: the user future is ready at once; import: the '
               'callee answers RETURNED at once). Pending imports are the runtime\'s Subtask state machine (C21, with a mock Subtask) and pending exports '
               'the executor (C22); the generated Subtask impl\'s dealloc callbacks are therefore only exercised on the immediate path',
               'not covered: the string variants of both directions (harnesses exist, CBMC runs out of memory), the cancellation signal of a dropped async export (TaskCancelOnDrop calls a function-local built-in that cannot be '
               'replaced by a stub), owned-handle parameters, results larger than the flat limit, stream/future payloads',
               'the generator is run with --runtime-path crate::rt so that the generated code resolves the runtime inside crates/guest-rust, where the '
               'file is mounted (cfg bytecodealliance_wit_bindgen_verif_c08); rule R1 attaches the mock host to task.return and the [async-lower] imports',
               'std\'s UTF-8 validation is a trusted stub (only ASCII is sent)')
    only = os.environ.get('VERIF_ONLY')   # development aid (never used by the registered commands): run matching callback harnesses only
    if only:
        import re
        cb = [h for h in CALLBACKS if re.search(only, h.name)]
        if cb:
            d2 = rustgen.generate(rep, 'rustgen_asub', mock=True, hoist=True)
            kani.run_harnesses(rep, d2, cb, None, 'kani-rustgen', timeout_each=1800, harness_file=os.path.join(d2, 'src/lib.rs'), guard=False)
            return
    d = rustgen.generate(rep, 'rustgen_async', extra_args=['--runtime-path', 'crate::rt'], mock=True,
                         mock_prefix='crate::rt::async_support::verif::c08::mockhost')
    mount = os.path.join(BUILD_ROOT, 'c08-mount')
    os.makedirs(mount, exist_ok=True)
    with target_lock('c08-mount'):
        shutil.copy(os.path.join(d, 'src/probe.rs'), os.path.join(mount, 'probe.rs'))
        kani.EXTRA_CFG[:] = ['bytecodealliance_wit_bindgen_verif_c08']
        try:
            hs = HARNESSES
            if only:   # the string harnesses are only reachable this way: they exhaust CBMC's memory (42 GB after 4 min for one byte), see NOT_FINISHING
                hs = [h for h in HARNESSES + STRINGS if re.search(only, h.name)]
            kani.run_harnesses(rep, rc.CRATE, hs, rc.FEATURES, 'kani-guest-c08', harness_file='/verif/harness/c08.rs', timeout_each=1200, jobs=3)
            if only:
                return
        finally:
            kani.EXTRA_CFG[:] = []
    d2 = rustgen.generate(rep, 'rustgen_asub', mock=True, hoist=True)
    kani.run_harnesses(rep, d2, CALLBACKS, None, 'kani-rustgen', timeout_each=900, harness_file=os.path.join(d2, 'src/lib.rs'), guard=False, canary_id='canary.kani.callbacks')
    rep.functions.append('crates/guest-rust/src/rt/async_support.rs, subtask.rs, waitable.rs (real runtime, driven in place by /verif/harness/c08.rs)')
