"""C10 (partial, bounded) — C guest bindings carry values unchanged: CBMC (wasm32 data model) on the real C generator's output
for a probe world, the harness acting as the host at the core-ABI boundary."""
LEVEL = 'other'
import os, shutil
from vlib import cbmcrun
from vlib.common import REPO, VERIF, BUILD, Obligation, Undecided, offline_env
from vlib.common import run as sh
from vlib.kani import target_lock

G = 'generated C export wrapper(s) for kani/cgen_val/probe.wit (crates/c/src/lib.rs FunctionBindgen::emit, export / print_sig; crates/core/src/abi.rs as instantiated for this type) — '
FULL = 'one probe world, export direction'
HEAP = FULL + '; list/string lengths 0..=2 (list<string>: <= 1 element of <= 1 byte)'
FUNCS = [
    ('c10_record', 'value.record', 'record { u8, u32 }', FULL),
    ('c10_tuple', 'value.tuple', 'tuple<u8, u64>', FULL),
    ('c10_option', 'value.option', 'option<u32>', FULL),
    ('c10_result', 'value.result', 'result<u32, u8>', FULL),
    ('c10_scalar_record', 'value.scalar_record', 'record { bool, char, s8, s16, s64, f32, f64 }', FULL),
    ('c10_flags_32_members', 'value.flags_32_members', 'flags with 32 members (bit 31 is a flag)', FULL),
    ('c10_nested_option', 'value.nested_option', 'option<option<u8>>', FULL),
    ('c10_result_one_payload', 'value.result_one_payload', 'result<u32> and result<_, u8> (one payload type only)', FULL),
    ('c10_flags_enum', 'value.flags_and_enum', 'flags, enum', FULL),
    ('c10_variant_numeric', 'value.variant_numeric_cases', 'variant with u32 / u64 / string cases, numeric cases', FULL),
    ('c10_f32_in_wide_variant_import', 'value.f32_in_wide_variant_import', 'variant { f32, u64, f64 } passed to and returned from an IMPORT (F32ToI64 / F64ToI64 bitcasts in the joined slot), every bit pattern', FULL.replace('export direction', 'import direction')),
    ('c10_f32_in_wide_variant_export', 'value.f32_in_wide_variant_export', 'variant { f32, u64, f64 } through an export (I64ToF32 / I64ToF64), every bit pattern', FULL),
    ('c10_import_string_and_list_any_length', 'value.import_string_and_list_any_length', 'string and list<u32> passed to an import: (pointer, length) unchanged for EVERY length', FULL.replace('export direction', 'import direction')),
    ('c10_c11_variant_string', 'value.variant_string_case', 'variant, string case', HEAP),
    ('c10_c11_string', 'value.string', 'string', HEAP),
    ('c10_c11_list_u32', 'value.list_u32', 'list<u32>', HEAP),
    ('c10_c11_list_of_tuples', 'value.list_of_tuples', 'list<tuple<u8, u32, u8>>', HEAP),
    ('c10_c11_list_of_strings', 'value.list_of_strings', 'list<string>', HEAP),
    ('c10_c11_import_result_list_of_strings', 'value.import_result_list_of_strings', 'list<string> RETURNED by an import', HEAP.replace('export direction', 'import direction')),
    ('c10_c11_record_with_heap_fields', 'value.record_with_heap_fields', 'record { u16, string, list<u8>, u8 }', HEAP),
    ('c10_c11_result_with_string', 'value.result_with_string', 'result<string, u32> (pointer-or-i32 joined slot)', HEAP),
]
ASSUME = ['PARTIAL and BOUNDED: the bindings the real C generator produces for ONE probe world, export direction (plus one import for C11); scalars over '
          'their full domains, list/string lengths bounded as stated',
          'CBMC verifies the generated C in the wasm32 data model (--32: 4-byte pointers and size_t); the sandbox has no 32-bit libc headers, so '
          'stdint/stddef/stdbool/stdlib/string are minimal hand-written headers (kani/cgen_val/inc32) and malloc/free/realloc are CBMC\'s models',
          'the host side is hand-written in the harness from CanonicalABI.md (flat parameters, joined variant slot, return-area offsets with 4-byte pointers)',
          'the documented C ownership rules are taken from crates/c/README.md: export arguments are owned by the callee, results are released by '
          'post-return, import arguments are borrowed',
          'not covered: async, resources, imports other than one option<list<string>> function, maps, fixed-length lists']


def build_cli(rep):
    from . import rustgen
    return rustgen.build_cli(rep)   # the same CLI binary (features rust,c) serves the Rust and the C probes


def generate(rep, probe='cgen_val', world='valprobe', extra_args=(), sub=''):
    cli = build_cli(rep)
    d = os.path.join(BUILD, probe + sub)
    os.makedirs(d, exist_ok=True)
    for f in os.listdir(d):
        os.remove(os.path.join(d, f))
    wit = os.path.join(VERIF, 'kani', probe, 'probe.wit')
    rc, out, err, secs, to = sh([cli, 'c', wit, '--out-dir', d] + list(extra_args), timeout=300)
    if rc != 0 or not os.path.exists(os.path.join(d, world + '.c')):
        raise Undecided('the C generator failed on the probe world: %s' % (err or out)[-800:])
    shutil.copy(os.path.join(VERIF, 'kani', probe, 'harness.c'), os.path.join(d, 'harness.c'))
    import hashlib
    gen = open(os.path.join(d, world + '.c')).read()
    rep.functions.append('generated C bindings %s/%s.c + %s.h (%d lines, sha256/16=%s): output of `wit-bindgen c kani/%s/probe.wit%s`, the real C '
                         'generator built from %s; included unedited by kani/%s/harness.c' % (d, world, world, gen.count('\n'), hashlib.sha256(gen.encode()).hexdigest()[:16],
                                                                                             probe, ''.join(' ' + a for a in extra_args), REPO, probe))
    return d


def check(rep, d, funcs, prefix, memory, defines=(), canary=True, G=None, canary_id='canary.cbmc'):
    G = G or globals()['G']
    inc = [os.path.join(VERIF, 'kani/cgen_val/inc32')]
    flags = ['--32', '--unwind', '4', '--unwinding-assertions'] + ['-D' + x for x in defines] + (['--pointer-check', '--bounds-check', '--memory-leak-check'] if memory else [])
    from concurrent.futures import ThreadPoolExecutor
    with ThreadPoolExecutor(max_workers=8) as pool:   # one cbmc process per obligation, eight at a time; results are added in the listed order
        results = list(pool.map(lambda f: cbmcrun.run_function(os.path.join(d, 'harness.c'), f[0], inc, flags), funcs))
    for (fn, oid, what, bound), r in zip(funcs, results):
        ob = Obligation(oid, G + what, 'property', 'cbmc', seconds=r['seconds'], bounded=bound)
        rep.checker_cmds.append(r['cmd'])
        mine = [f for f in r['failed'] if (f.startswith(prefix) if not memory else not f.startswith('C10:'))]
        limits = [f for f in r['failed'] if 'unwinding assertion' in f]
        if r['status'] == 'ok' and r['checks'] > 0:
            ob.status = 'discharged'
        elif r['status'] == 'failed' and limits and len(limits) == len(r['failed']):
            ob.status = 'undecided'
            ob.detail = 'only unwinding assertions failed: ' + '; '.join(limits)[:400]
        elif r['status'] == 'failed' and mine:
            ob.status = 'failed'
            ob.detail = 'cbmc --function %s: failed checks: %s' % (fn, ' ; '.join(mine)[:1500])
            ob.replay = {'input': 'CBMC counterexample (nondeterministic inputs): ' + (r['trace'] or 'see trace'), 'function': fn,
                         'how': 'cbmc --trace on the generated C included by the harness.c of the probe (wasm32 data model)', 'cmd': r['cmd']}
        elif r['status'] == 'failed':
            ob.status = 'discharged'   # failures belong to the sibling property (C10 values vs C11 memory); reported there
        else:
            ob.status = 'undecided'
            ob.detail = 'cbmc gave no verdict for %s: %s' % (fn, r['raw'][:600])
        rep.add(ob)
    if not canary:
        return
    r = cbmcrun.run_function(os.path.join(d, 'harness.c'), 'canary_must_fail', inc, ['--32'] + ['-D' + x for x in defines])
    rep.add(Obligation(canary_id, 'false assertion must be refuted', 'vacuity', 'cbmc', status='discharged' if r['status'] == 'failed' else 'undecided', seconds=r['seconds']))


# generator configurations of the property's quantifier; --autodrop-borrows only changes code for resources (C11's resource probe runs it)
CONFIGS = [('', [], [], 'default options'),
           ('-noflat', ['--no-sig-flattening'], ['NOFLAT'], '--no-sig-flattening'),
           ('-utf16', ['--string-encoding', 'utf16'], ['UTF16'], '--string-encoding utf16')]


def run_configs(rep, funcs, prefix, memory):
    for i, (sub, args, defs, label) in enumerate(CONFIGS):
        d = generate(rep, extra_args=args, sub=sub)
        fs = [(f, oid + sub, what + ' [%s]' % label, b) for f, oid, what, b in funcs]
        check(rep, d, fs, prefix, memory=memory, defines=defs, canary=(i == 0))


def run(rep, tier):
    rep.assume(*ASSUME)
    rep.assume('generator configurations: default, --no-sig-flattening (options / results as C structs in user-facing signatures) and --string-encoding utf16 '
               '(16-bit code units; lengths count code units) - every obligation is run under each; --autodrop-borrows yes only affects resources (C11)')
    run_configs(rep, FUNCS, 'C10:', False)
