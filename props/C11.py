"""C11 (partial, bounded) — C guest bindings release exactly the memory they own: CBMC's allocator model (leaks, double frees, use after
free, out-of-bounds) on the real C generator's output for a probe world."""
LEVEL = 'other'
from . import C10

HEAP = C10.HEAP
FUNCS = [
    ('c10_c11_string', 'heap.string_param_and_result', 'string: argument owned and freed by the callee, result freed by post-return', HEAP),
    ('c10_c11_list_u32', 'heap.list_u32_param_and_result', 'list<u32>', HEAP),
    ('c10_c11_list_of_tuples', 'heap.list_of_tuples', 'list<tuple<u8, u32, u8>>', HEAP),
    ('c10_c11_variant_string', 'heap.variant_string_case', 'variant whose string case owns a buffer: post-return frees exactly when the result holds one', HEAP),
    ('c10_c11_list_of_strings', 'heap.list_of_strings', 'list<string>: generated *_free helper releases elements and list; post-return releases the result', HEAP),
    ('c10_variant_numeric', 'heap.variant_numeric_cases_free_nothing', 'variant numeric cases: post-return frees nothing', C10.FULL),
    ('c11_import_arguments_untouched', 'heap.import_arguments_untouched', 'import with option<list<string>>: arguments borrowed, left untouched, still the caller\'s to free', C10.FULL),
]


def run(rep, tier):
    rep.assume(*C10.ASSUME)
    rep.assume('memory is judged by CBMC\'s own allocator model with --pointer-check --bounds-check --memory-leak-check: a block freed twice, used after free, '
               'accessed out of bounds or still allocated at the end of the harness fails the obligation; the user functions of the harness free their '
               'arguments with the generated *_free helpers, as the documented ownership rules require',
               'not covered: an exported resource\'s destructor, the free helpers of types outside the probe')
    d = C10.generate(rep)
    C10.check(rep, d, FUNCS, 'C11:', memory=True)
