"""C11 (partial, bounded) — C guest bindings release exactly the memory they own: CBMC's allocator model (leaks, double frees, use after
free, out-of-bounds) on the real C generator's output for a probe world."""
LEVEL = 'other'
from . import C10

HEAP = C10.HEAP
FUNCS = [
    ('c10_c11_string', 'heap.string_param_and_result', 'string: argument owned and freed by the callee, result freed by post-return', HEAP),
    ('c10_c11_list_u32', 'heap.list_u32_param_and_result', 'list<u32>', HEAP),
    ('c10_c11_list_of_tuples', 'heap.list_of_tuples', 'list<tuple<u8, u32, u8>>', HEAP),
    ('c10_c11_variant_string', 'heap.variant_string_case', 'variant whose string case owns a buffer: post-return frees exactly when the result holds one', HEAP),
    ('c10_c11_list_of_strings', 'heap.list_of_strings', 'list<string>: generated *_free helper releases elements and list; post-return releases the result', HEAP),
    ('c10_c11_record_with_heap_fields', 'heap.record_with_heap_fields', 'record with a string and a list field: *_free helper and post-return release both buffers', HEAP),
    ('c10_c11_result_with_string', 'heap.result_with_string', 'result<string, u32>: a buffer is freed exactly when the case is ok', HEAP),
    ('c10_c11_import_result_list_of_strings', 'heap.import_result_owned_by_caller', 'list<string> returned by an import: owned by the caller, released entirely by the generated free helper', HEAP),
    ('c10_variant_numeric', 'heap.variant_numeric_cases_free_nothing', 'variant numeric cases: post-return frees nothing', C10.FULL),
    ('c11_import_arguments_untouched', 'heap.import_arguments_untouched', 'import with option<list<string>>: arguments borrowed, left untouched, still the caller\'s to free', C10.FULL),
]


GR = 'generated C bindings for kani/cgen_res/probe.wit (crates/c/src/lib.rs type_resource, define_live_types / define_dtor / free, FunctionBindgen::emit HandleLift / HandleLower / Return) - '
RES = 'one probe world (imported resource blob-store, exported resources my-thing and box, an interface both imported and exported); handles over all non-zero i32'
RES_FUNCS = [
    ('c11r_borrow_plain', 'handles.borrow_argument', 'borrow<imported resource> argument of an export', RES),
    ('c11r_borrow_in_option', 'handles.borrow_in_option', 'option<borrow<..>> argument: released exactly when one was lent', RES),
    ('c11r_borrow_in_variant', 'handles.borrow_in_variant', 'variant { by-handle(borrow<..>), by-index(u32) }: an integer payload in the shared flat slot is not a handle', RES),
    ('c11r_own_and_exported_borrow', 'handles.own_and_exported_borrow', 'own arguments / results and borrows of exported resources: the bindings release nothing', RES),
    ('c11r_destructor_runs_once', 'handles.destructor_wrapper', 'the [dtor] export of each exported resource calls that resource\'s user destructor exactly once', RES),
    ('c11r_handle_helpers', 'handles.helpers', 'drop_own / drop_borrow / new / rep / borrow helpers: exactly one canonical built-in call each', RES),
]
FREE = 'one probe world; lists of <= 2 strings of <= 1 byte'
FREE_FUNCS = [
    ('c11r_free_helpers_import_side', 'heap.free_helpers_import_side', 'record { list<string>, u32 } and variant with a list<string> case: *_free releases every owned buffer exactly once', FREE),
    ('c11r_free_helpers_export_side', 'heap.free_helpers_export_side', 'the same types on the export side of an interface that is both imported and exported', FREE),
]


def export_names(text):
    import re
    return re.findall(r'__export_name__\("([^"]*)"\)', text)


def spec_export_names(wit):
    """Independent spec of the core export names a component encoder recognises for the probe (CanonicalABI.md / wit-component naming):
    `<iface>#<func>`, `<iface>#[constructor]<r>`, `<iface>#[method]<r>.<m>`, `<iface>#[static]<r>.<m>`, `<iface>#[dtor]<r>`,
    `cabi_post_<export>`, `cabi_realloc` - all with the WIT (kebab-case) names.  Returns (required, recognised)."""
    import re
    pkg = re.search(r'package\s+([\w:-]+);', wit).group(1)
    ifaces = {}
    for m in re.finditer(r'interface\s+([\w-]+)\s*\{', wit):
        i, depth, j = m.end(), 1, m.end()
        while depth:
            depth += {'{': 1, '}': -1}.get(wit[j], 0)
            j += 1
        ifaces[m.group(1)] = wit[i:j - 1]
    world = re.search(r'world\s+[\w-]+\s*\{(.*?)\}', wit, re.S).group(1)
    required, recognised = set(), {'cabi_realloc'}
    for exp in re.findall(r'export\s+([\w-]+);', world):
        body = ifaces[exp]
        q = '%s/%s' % (pkg, exp)
        res_bodies = []
        for m in re.finditer(r'resource\s+([\w-]+)\s*\{(.*?)\}', body, re.S):
            r, rb = m.group(1), m.group(2)
            res_bodies.append(m.group(0))
            required.add('%s#[dtor]%s' % (q, r))
            if re.search(r'constructor\s*\(', rb):
                required.add('%s#[constructor]%s' % (q, r))
            for fm in re.finditer(r'([\w-]+)\s*:\s*(static\s+)?func', rb):
                required.add('%s#[%s]%s.%s' % (q, 'static' if fm.group(2) else 'method', r, fm.group(1)))
        rest = body
        for rb in res_bodies:
            rest = rest.replace(rb, '')
        for fm in re.finditer(r'([\w-]+)\s*:\s*func', rest):
            required.add('%s#%s' % (q, fm.group(1)))
    recognised |= required | {'cabi_post_' + n for n in required}
    return required, recognised


def spec_import_names(wit):
    """Independent spec of the (module, name) pairs of the core imports for the probe: functions, constructors, methods, statics and
    resource.drop of every imported interface under the interface's name; resource.drop / resource.new / resource.rep of every EXPORTED
    resource under `[export]<interface>` - all with WIT (kebab-case) names."""
    import re
    pkg = re.search(r'package\s+([\w:-]+);', wit).group(1)
    ifaces = {}
    for m in re.finditer(r'interface\s+([\w-]+)\s*\{', wit):
        i, depth, j = m.end(), 1, m.end()
        while depth:
            depth += {'{': 1, '}': -1}.get(wit[j], 0)
            j += 1
        ifaces[m.group(1)] = wit[i:j - 1]
    world = re.search(r'world\s+[\w-]+\s*\{(.*?)\}', wit, re.S).group(1)
    want = set()
    for imp in re.findall(r'import\s+([\w-]+);', world):
        body, q = ifaces[imp], '%s/%s' % (pkg, imp)
        rest = body
        for m in re.finditer(r'resource\s+([\w-]+)\s*\{(.*?)\}', body, re.S):
            r, rb = m.group(1), m.group(2)
            rest = rest.replace(m.group(0), '')
            want.add((q, '[resource-drop]' + r))
            if re.search(r'constructor\s*\(', rb):
                want.add((q, '[constructor]' + r))
            for fm in re.finditer(r'([\w-]+)\s*:\s*(static\s+)?func', rb):
                want.add((q, '[%s]%s.%s' % ('static' if fm.group(2) else 'method', r, fm.group(1))))
        for fm in re.finditer(r'([\w-]+)\s*:\s*func', rest):
            want.add((q, fm.group(1)))
    for exp in re.findall(r'export\s+([\w-]+);', world):
        body, q = ifaces[exp], '[export]%s/%s' % (pkg, exp)
        for m in re.finditer(r'resource\s+([\w-]+)\s*\{', body):
            for k in ('drop', 'new', 'rep'):
                want.add((q, '[resource-%s]%s' % (k, m.group(1))))
    return want


def check_import_names(rep, d, sub):
    from vlib.common import Obligation, VERIF
    import os, re
    wit = open(os.path.join(VERIF, 'kani/cgen_res/probe.wit')).read()
    text = open(os.path.join(d, 'resprobe.c')).read()
    got = set(re.findall(r'__import_module__\("([^"]*)"\),\s*__import_name__\("([^"]*)"\)', text))
    want = spec_import_names(wit)
    ob = Obligation('imports.names_canonical' + sub, GR + 'every core import the generated C declares is named as the component model names it (functions, constructors, methods, '
                    'resource.drop of imported resources under the interface; resource.drop / new / rep of exported resources under `[export]<interface>`, WIT names), '
                    'and every resource built-in of the probe is imported', 'property', 'text-spec', bounded=RES)
    stray, lacking = sorted(got - want), sorted(want - got)
    if not got:
        ob.status, ob.detail = 'undecided', 'no import attribute found in the generated C (generator output changed shape)'
    elif stray or lacking:
        ob.status = 'failed'
        ob.detail = 'imports with a (module, name) outside the scheme: %s; expected imports that are missing: %s' % (stray, lacking)
        ob.replay = {'input': 'kani/cgen_res/probe.wit', 'function': 'crates/c/src/lib.rs (import module / name attributes)', 'how': 'grep __import_module__ in the generated resprobe.c',
                     'expected': sorted(want), 'observed': sorted(got)}
    else:
        ob.status = 'discharged'
    rep.add(ob)


def check_export_names(rep, d, sub):
    from vlib.common import Obligation, VERIF
    import os
    wit = open(os.path.join(VERIF, 'kani/cgen_res/probe.wit')).read()
    text = open(os.path.join(d, 'resprobe.c')).read()
    required, recognised = spec_export_names(wit)
    got = export_names(text)
    dtors = sorted(n for n in required if '#[dtor]' in n)
    ob = Obligation('handles.destructor_export_name' + sub, GR + 'the destructor of every exported resource is exported under the name the component model gives it, '
                    '`<interface>#[dtor]<resource>` with the resource\'s WIT name (a name the encoder does not recognise is silently left unwired: the user destructor never runs)',
                    'property', 'text-spec', bounded=RES)
    missing = [n for n in dtors if n not in got]
    if not dtors:
        ob.status, ob.detail = 'undecided', 'the probe declares no exported resource'
    elif missing:
        near = [g for g in got if '[dtor]' in g]
        ob.status = 'failed'
        ob.detail = 'exported resources whose destructor is not exported under its canonical name: %s; [dtor] exports in the generated C: %s' % (missing, near)
        ob.replay = {'input': 'kani/cgen_res/probe.wit (resource names: %s)' % ', '.join(n.split(']')[1] for n in dtors), 'function': 'crates/c/src/lib.rs type_resource',
                     'how': 'run the real generator (`wit-bindgen c kani/cgen_res/probe.wit`) and read the __export_name__ attribute of __wasm_export_*_dtor in resprobe.c; '
                            'wit-component (validation.rs match_wit_resource_dtor) looks the suffix up among the interface\'s WIT type names and ignores the export when it is not one',
                     'expected': missing, 'observed': near}
    else:
        ob.status = 'discharged'
    rep.add(ob)
    ob = Obligation('exports.names_recognised' + sub, GR + 'every export the generated C declares carries a name from the component model\'s naming scheme for this world, and every '
                    'exported function / constructor / method / destructor of the probe is exported', 'property', 'text-spec', bounded=RES)
    stray = sorted(g for g in got if g not in recognised)
    lacking = sorted(n for n in required if n not in got)
    if stray or lacking:
        ob.status = 'failed'
        ob.detail = 'exports with a name outside the scheme: %s; required exports that are missing: %s' % (stray, lacking)
        ob.replay = {'input': 'kani/cgen_res/probe.wit', 'function': 'crates/c/src/lib.rs (export name attributes)', 'how': 'grep __export_name__ in the generated resprobe.c',
                     'expected': sorted(required), 'observed': got}
    else:
        ob.status = 'discharged'
    rep.add(ob)


def run_resources(rep):
    import os
    for sub, args, defs in [('', [], []), ('-autodrop', ['--autodrop-borrows', 'yes'], ['AUTODROP'])]:
        d = C10.generate(rep, 'cgen_res', 'resprobe', args, sub)
        hdr = open(os.path.join(d, 'resprobe.h')).read()
        funcs = [(f, oid + sub, what + (' [--autodrop-borrows yes]' if sub else ' [default options]'), b) for f, oid, what, b in RES_FUNCS]
        C10.check(rep, d, funcs, 'C11:', memory=True, defines=defs, canary=False, G=GR)
        check_export_names(rep, d, sub)
        check_import_names(rep, d, sub)
        if sub:
            continue
        # generated free helpers (independent of autodrop): the export-side helpers must exist before the harness can call them
        have = 'exports_verif_res_shared_names_free(' in hdr and 'exports_verif_res_shared_pick_free(' in hdr
        if have:
            C10.check(rep, d, FREE_FUNCS, 'C11:', memory=True, defines=['HAVE_EXPORT_SIDE_FREE'], canary=True, G=GR, canary_id='canary.cbmc.resources')
        else:
            C10.check(rep, d, FREE_FUNCS[:1], 'C11:', memory=True, defines=[], canary=True, G=GR, canary_id='canary.cbmc.resources')
            f, oid, what, b = FREE_FUNCS[1]
            if 'exports_verif_res_shared_pick_free(' in hdr:
                # the variant's helper exists: let CBMC show what it leaves allocated
                C10.check(rep, d, [('c11r_free_helper_export_side_variant', oid, what + ' (variant helper only: the record\'s helper is not generated at all)', b)],
                          'C11:', memory=True, defines=[], canary=False, G=GR)
            else:
                from vlib.common import Obligation
                ob = Obligation(oid, GR + what, 'property', 'text-spec', bounded=b)
                ob.status = 'failed'
                ob.detail = ('the header declares no free helper for a type that owns memory: exports_verif_res_shared_names_free / exports_verif_res_shared_pick_free '
                             '(record { all: list<string>, id: u32 } / variant with a list<string> case on the export side of an interface that is also imported)')
                ob.replay = {'input': 'kani/cgen_res/probe.wit', 'function': 'crates/c/src/lib.rs define_live_types / define_dtor',
                             'how': 'run the real generator and grep `_free(` in resprobe.h: the import-side twins verif_res_shared_names_free / verif_res_shared_pick_free exist and free the list, '
                                    'the export-side ones are missing', 'observed': [l for l in hdr.splitlines() if '_free(' in l]}
                rep.add(ob)


def run(rep, tier):
    rep.assume(*C10.ASSUME)
    rep.assume('memory is judged by CBMC\'s own allocator model with --pointer-check --bounds-check --memory-leak-check: a block freed twice, used after free, '
               'accessed out of bounds or still allocated at the end of the harness fails the obligation; the user functions of the harness free their '
               'arguments with the generated *_free helpers, as the documented ownership rules require',
               'not covered: an exported resource\'s destructor, the free helpers of types outside the probe')
    C10.run_configs(rep, FUNCS, 'C11:', True)
    run_resources(rep)
