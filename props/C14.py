"""C14 — every backend's scalar conversions implement the Canonical ABI mapping.

The text each backend emits for the 24 scalar `Instruction`s is extracted from the real match arms of its
`Bindgen::emit` on every run (vlib/arms.py), typed with the backend's own representation of the WIT scalar and of
the core value, translated under the per-language semantics table (vlib/exprvc.py) and proved equal to the Canonical
ABI mapping for ALL operand values by z3."""
import os, re, time
from vlib import arms, exprvc, rustsrc
from vlib.common import REPO, Obligation, Undecided
from . import c04_probe, rustgen
from vlib import kani
from vlib.kani import Harness

FILES = {'rust': 'crates/rust/src/bindgen.rs', 'c': 'crates/c/src/lib.rs', 'cpp': 'crates/cpp/src/lib.rs',
         'csharp': 'crates/csharp/src/function.rs', 'd': 'crates/d/src/lib.rs', 'moonbit': 'crates/moonbit/src/lib.rs',
         'go': 'crates/go/src/lib.rs'}
# WIT scalar -> (natural width, signed)
WIT = {'U8': (8, False), 'S8': (8, True), 'U16': (16, False), 'S16': (16, True), 'U32': (32, False), 'S32': (32, True),
       'U64': (64, False), 'S64': (64, True), 'Char': (32, False), 'Bool': (1, False), 'F32': (32, False), 'F64': (64, False)}
# the backend's representation of each WIT scalar (TRUSTED table; anchored in the backend's type printer below)
REPR = {
    'rust': dict(U8='u8', S8='i8', U16='u16', S16='i16', U32='u32', S32='i32', U64='u64', S64='i64', F32='f32', F64='f64', Char='char', Bool='bool'),
    'c': dict(U8='uint8_t', S8='int8_t', U16='uint16_t', S16='int16_t', U32='uint32_t', S32='int32_t', U64='uint64_t', S64='int64_t', F32='float', F64='double', Char='uint32_t', Bool='bool'),
    'cpp': dict(U8='uint8_t', S8='int8_t', U16='uint16_t', S16='int16_t', U32='uint32_t', S32='int32_t', U64='uint64_t', S64='int64_t', F32='float', F64='double', Char='uint32_t', Bool='bool'),
    'csharp': dict(U8='byte', S8='sbyte', U16='ushort', S16='short', U32='uint', S32='int', U64='ulong', S64='long', F32='float', F64='double', Char='uint', Bool='bool'),
    'd': dict(U8='ubyte', S8='byte', U16='ushort', S16='short', U32='uint', S32='int', U64='ulong', S64='long', F32='float', F64='double', Char='dchar', Bool='bool'),
    'go': dict(U8='uint8', S8='int8', U16='uint16', S16='int16', U32='uint32', S32='int32', U64='uint64', S64='int64', F32='float32', F64='float64', Char='rune', Bool='bool'),
    'moonbit': dict(U8='Byte', S8='Int', U16='UInt', S16='Int', U32='UInt', S32='Int', U64='UInt64', S64='Int64', F32='Float', F64='Double', Char='Char', Bool='Bool'),
}
REPR_ANCHOR = {'rust': 'crates/rust/src/interface.rs', 'c': 'crates/c/src/lib.rs', 'cpp': 'crates/cpp/src/lib.rs',
               'csharp': 'crates/csharp/src/interface.rs', 'd': 'crates/d/src/lib.rs', 'go': 'crates/go/src/lib.rs',
               'moonbit': 'crates/moonbit/src/pkg.rs'}

LOWER = [('I32FromU8', 'U8', 'I32'), ('I32FromS8', 'S8', 'I32'), ('I32FromU16', 'U16', 'I32'), ('I32FromS16', 'S16', 'I32'),
         ('I32FromU32', 'U32', 'I32'), ('I32FromS32', 'S32', 'I32'), ('I32FromChar', 'Char', 'I32'), ('I32FromBool', 'Bool', 'I32'),
         ('I64FromU64', 'U64', 'I64'), ('I64FromS64', 'S64', 'I64'), ('CoreF32FromF32', 'F32', 'F32'), ('CoreF64FromF64', 'F64', 'F64')]
LIFT = [('U8FromI32', 'I32', 'U8'), ('S8FromI32', 'I32', 'S8'), ('U16FromI32', 'I32', 'U16'), ('S16FromI32', 'I32', 'S16'),
        ('U32FromI32', 'I32', 'U32'), ('S32FromI32', 'I32', 'S32'), ('CharFromI32', 'I32', 'Char'), ('BoolFromI32', 'I32', 'Bool'),
        ('U64FromI64', 'I64', 'U64'), ('S64FromI64', 'I64', 'S64'), ('F32FromCoreF32', 'F32', 'F32'), ('F64FromCoreF64', 'F64', 'F64')]


def check_repr_anchors(rep, b):
    """every (WIT scalar -> target type name) pair of the trusted table must still be printed by the backend"""
    text = open(os.path.join(REPO, REPR_ANCHOR[b])).read()
    missing = []
    for w, name in REPR[b].items():
        if not re.search(r'Type::%s\b[^=;{]*=>[^\n]*"%s"' % (w, re.escape(name)), text):
            missing.append('%s=>%s' % (w, name))
    return missing


def rust_runtime(rep):
    """semantics of the Rust runtime items the arms call, anchored in the item texts of crates/rust/src/lib.rs"""
    text = open(os.path.join(REPO, 'crates/rust/src/lib.rs')).read()
    fns = {}
    m = re.search(r'emit_runtime_as_trait\(\s*"i32",\s*&\[([^\]]*)\]', text)
    body_ok = re.search(r'impl As\{upcase\} for \{to_convert\} \{\{\s*#\[inline\]\s*fn as_\{ty\}\(self\) -> \{ty\} \{\{\s*self as \{ty\}\s*\}\}', text) \
        and re.search(r'pub fn as_\{ty\}<T: As\{upcase\}>\(t: T\) -> \{ty\} \{\{\s*t\.as_\{ty\}\(\)\s*\}\}', text)
    if not m or not body_ok:
        raise rustsrc.LostAnchor('crates/rust/src/lib.rs: as_i32 runtime item text not recognised')
    i32_from = [s.strip().strip('"') for s in m.group(1).split(',') if s.strip()]
    m64 = re.search(r'emit_runtime_as_trait\(\s*"i64",\s*&\[([^\]]*)\]', text)
    i64_from = [s.strip().strip('"') for s in m64.group(1).split(',') if s.strip()] if m64 else []

    def as_int(to, allowed):
        def f(ev, a):
            if len(a) != 1 or a[0].ty.name not in allowed:
                raise exprvc.Unsupported('as_%s is not implemented for %s (impls: %s)' % (to, a[0].ty if a else '?', allowed))
            return exprvc.conv(a[0], ev.ty(to))     # the item body is `self as <to>`
        return f
    fns['as_i32'] = as_int('i32', i32_from)
    fns['as_i64'] = as_int('i64', i64_from)
    for fl in ('f32', 'f64'):
        if not re.search(r'emit_runtime_as_trait\("%s",\s*&\["%s"\]\)' % (fl, fl), text):
            raise rustsrc.LostAnchor('as_%s runtime item list changed' % fl)
        fns['as_' + fl] = (lambda fl: lambda ev, a: exprvc.Val(a[0].smt, ev.ty(fl)) if a[0].ty.name == fl else exprvc.Eval._unsup(ev, 'as_%s of %s' % (fl, a[0].ty)))(fl)
    # char_lift(val: u32) -> char: from_u32(val).unwrap() (debug) / from_u32_unchecked(val) (release): for a valid scalar value, that char
    if not re.search(r'pub unsafe fn char_lift\(val: u32\) -> char \{\s*if cfg!\(debug_assertions\) \{\s*core::char::from_u32\(val\)\.unwrap\(\)\s*\} else \{\s*unsafe \{ core::char::from_u32_unchecked\(val\) \}\s*\}\s*\}', text):
        raise rustsrc.LostAnchor('char_lift runtime item text changed')
    fns['char_lift'] = lambda ev, a: exprvc.Val(a[0].smt, ev.ty('char')) if a[0].ty.name == 'u32' else exprvc.Eval._unsup(ev, 'char_lift of %s' % a[0].ty)
    # bool_lift(val: u8) -> bool: 0 => false, 1 => true (debug: anything else panics; release: val != 0)
    if not re.search(r'pub unsafe fn bool_lift\(val: u8\) -> bool \{\s*if cfg!\(debug_assertions\) \{\s*match val \{\s*0 => false,\s*1 => true,\s*_ => panic!\(\\"invalid bool discriminant\\"\),\s*\}\s*\} else \{\s*val != 0\s*\}\s*\}', text):
        raise rustsrc.LostAnchor('bool_lift runtime item text changed')
    fns['bool_lift'] = lambda ev, a: exprvc.Val('(ite (= %s #x00) #b0 #b1)' % a[0].smt, ev.ty('bool')) if a[0].ty.name == 'u8' else exprvc.Eval._unsup(ev, 'bool_lift of %s' % a[0].ty)
    rep.trust('Rust runtime items as_i32/as_i64/as_f32/as_f64 (body `self as T`, impl lists read from crates/rust/src/lib.rs), char_lift, bool_lift: '
              'their texts are matched against the source each run; their meaning (`as` cast; the char with that code; 0=>false 1=>true) is modelled by hand')
    return fns


def moonbit_ffi(rep):
    text = open(os.path.join(REPO, 'crates/moonbit/src/ffi.rs')).read()
    ffi = {}
    for n, w in (('mbt_ffi_extend8', 8), ('mbt_ffi_extend16', 16)):
        if re.search(r'extern "wasm" fn %s\(value : Int\) -> Int =\s*#\|\(func \(param i32\) \(result i32\) local\.get 0 i32\.extend%d_s\)' % (n, w), text):
            ffi[n] = w
    return ffi


def go_fns():
    def ite10(ev, a):
        if a[0].ty.kind != 'bool':
            raise exprvc.Unsupported('if on %s' % a[0].ty)
        return exprvc.Val('(ite (= %s #b1) %s %s)' % (a[0].smt, exprvc.bv(1, 32), exprvc.bv(0, 32)), ev.ty('int32'))
    return {'__go_if_then_1_else_0': ite10}


def valid_domain(wit, x, T):
    """constraint that the operand is a valid value of the WIT type when the target type is wider than the WIT type"""
    w, signed = WIT[wit]
    cs = []
    if wit == 'Char':
        cs.append('(bvult %s %s)' % (x, exprvc.bv(0x110000, T.width)))
        cs.append('(not (and (bvuge %s %s) (bvule %s %s)))' % (x, exprvc.bv(0xD800, T.width), x, exprvc.bv(0xDFFF, T.width)))
    elif wit not in ('Bool', 'F32', 'F64') and T.width > w:
        # value fits the WIT type: re-extending the low w bits gives the value back
        cs.append('(= %s %s)' % (x, exprvc.ext(exprvc.ext(x, T.width, w, False), w, T.width, signed)))
    return cs


def run(rep, tier):
    rep.assume('spec side (TRUSTED, from CanonicalABI.md lower_flat/lift_flat for scalars): lowering gives the core value whose low bits are the '
               'value and whose upper bits zero-/sign-extend it by the WIT type\'s signedness; lifting takes the low w bits of an ARBITRARY core '
               'value with the WIT type\'s signedness; 64-bit and float values bit-exact; char = its scalar value (operands restricted to valid '
               'scalar values); bool: false/true <-> 0/1 (lifting is only required on 0 and 1)',
               'the representation of each WIT scalar in each target language (REPR table) is trusted, and anchored: every pair must still be '
               'printed by the backend\'s type printer or the backend is undecided',
               'when a backend represents a WIT type in a wider target type (MoonBit s8/s16 as Int, u16 as UInt; C/C++/C# char as a 32-bit unsigned) the '
               'lowering operand is assumed to be a valid value of the WIT type',
               *exprvc.TRUSTED_TABLES)
    rep.trust(*exprvc.TRUSTED_TABLES)
    rep.rewrites.append({'rule': 'template extraction (vlib/arms.py): only the arm of each scalar Instruction is read; shapes S1-S5; '
                                 'dropped: the rest of emit(), generator state, how the text is spliced into the generated function'})
    exe = c04_probe.build(rep)
    types, _ = c04_probe.emit(exe, [])
    extras = {'rust': {'rust_fns': rust_runtime(rep)}, 'moonbit': {'ffi': moonbit_ffi(rep)}, 'go': {'rust_fns': {}}}
    gof = go_fns()
    rep.extra['templates'] = {}
    for b in FILES:
        try:
            em = arms.Emit(os.path.join(REPO, FILES[b]))
            missing = check_repr_anchors(rep, b)
            if missing:
                raise rustsrc.LostAnchor('%s no longer prints %s (type representation table out of date)' % (REPR_ANCHOR[b], missing))
        except rustsrc.LostAnchor as e:
            rep.add(Obligation('scalar.%s.*' % b, FILES[b], 'property', 'z3', status='undecided', detail=str(e)))
            continue
        rep.functions.append('%s:%d fn `emit` (match arms of the 24 scalar Instructions; sha256/16 of the whole fn = %s)' % (FILES[b], em.fn.line, em.fn.sha()))
        tt = exprvc.types_for(b, 32)
        extra = dict(extras.get(b, {}))
        for direction, table in (('lower', LOWER), ('lift', LIFT)):
            for inst, src, dst in table:
                oid = 'scalar.%s.%s' % (b, inst)
                ob = Obligation(oid, '%s emit arm Instruction::%s' % (FILES[b], inst), 'property', 'z3')
                t0 = time.time()
                try:
                    tmpl, shape, line = em.template(inst)
                    ob.function = '%s:%d emit arm Instruction::%s [%s]' % (FILES[b], line, inst, shape)
                    text = tmpl.replace('{}', 'x')
                    rep.extra['templates']['%s.%s' % (b, inst)] = tmpl
                    if direction == 'lower':
                        Tsrc = tt[REPR[b][src]]
                        Tdst = tt[types[dst][b]]
                    else:
                        Tsrc = tt[types[src][b]]
                        Tdst = tt[REPR[b][dst]]
                    x = exprvc.Val('x', Tsrc)
                    ev = exprvc.Eval(b, 32, {'x': x}, extra)
                    if b == 'go':
                        ev.extra = {'rust_fns': gof}
                    ast = exprvc.Parser(b, text, ev.types).parse()
                    if b == 'go' and ast[0] == 'call' and ast[1] in gof:
                        v = gof[ast[1]](ev, [ev.ev(a) for a in ast[2]])
                    else:
                        v = ev.ev(ast)
                    if isinstance(v, tuple):
                        raise exprvc.Unsupported('aggregate result')
                    # the value as stored in a variable of the destination type
                    if v.ty.kind == Tdst.kind and v.ty.width == Tdst.width:
                        r = v
                    else:
                        r = exprvc.conv_or_reint(v, Tdst)
                    pre = []
                    W = 64
                    if direction == 'lower':
                        wit = src
                        w, signed = WIT[wit]
                        pre = valid_domain(wit, 'x', Tsrc)
                        if wit == 'Bool':
                            expect = exprvc.ext('x', 1, Tdst.width, False)
                        elif wit in ('F32', 'F64'):
                            expect = 'x'
                        else:
                            expect = exprvc.ext(exprvc.ext('x', Tsrc.width, w, False), w, Tdst.width, signed)
                        goal = '(= %s %s)' % (r.smt, expect)
                    else:
                        wit = dst
                        w, signed = WIT[wit]
                        if wit == 'Bool':
                            pre = ['(bvule x %s)' % exprvc.bv(1, Tsrc.width)]
                            goal = '(= %s ((_ extract 0 0) x))' % r.smt
                        elif wit in ('F32', 'F64'):
                            goal = '(= %s x)' % r.smt
                        else:
                            if wit == 'Char':
                                pre = valid_domain('Char', 'x', Tsrc)
                            canon = exprvc.ext(exprvc.ext('x', Tsrc.width, w, False), w, W, signed)
                            got = exprvc.ext(r.smt, Tdst.width, W, Tdst.signed and Tdst.kind == 'int')
                            goal = '(= %s %s)' % (got, canon)
                    neg = '(and %s (not %s))' % (' '.join(pre) if pre else 'true', goal)
                    res, model, q = exprvc.z3_check([('x', Tsrc.width)] + ev.fresh, neg)
                    ob.seconds = time.time() - t0
                    if res == 'unsat':
                        ob.status = 'discharged'
                    elif res == 'sat':
                        xv = model.get('x', 0)
                        ob.status = 'failed'
                        ob.replay = {'input': 'x = 0x%x (operand of type %s)' % (xv, Tsrc), 'emitted': text,
                                     'how': 'z3 model of the negated obligation; the emitted text evaluated under the %s semantics table' % b,
                                     'smt_query': q}
                        ob.detail = '%s: the %s backend emits `%s` for %s (operand type %s, result type %s); for x = 0x%x this is not the Canonical ABI value' % (
                            oid, b, text, inst, Tsrc, Tdst, xv)
                    else:
                        raise exprvc.Unsupported('z3 answered %s %s' % (res, model))
                except (exprvc.Unsupported, arms.UnknownShape, rustsrc.LostAnchor, KeyError) as e:
                    ob.status = 'undecided'
                    ob.detail = '%s: %s' % (type(e).__name__, e)
                rep.add(ob)
    # ---- Rust backend end to end: the real generator's output for a probe world, under Kani
    d = rustgen.generate(rep, 'rustgen')
    G = 'generated Rust export trampoline _export_f_%s_cabi + _rt items (crates/rust/src/bindgen.rs scalar arms, crates/rust/src/lib.rs runtime items)'
    hs = [Harness('c14_rust_' + t, 'rustgen.%s.lift_and_lower_are_canonical' % t, G % t)
          for t in ['u8', 's8', 'u16', 's16', 'u32', 's32', 'u64', 's64', 'f32', 'f64', 'char', 'bool']]
    kani.run_harnesses(rep, d, hs, None, 'kani-rustgen', timeout_each=300, harness_file=os.path.join(d, 'src/lib.rs'),
                       playback_features='values-only', guard=False)
    # vacuity canary
    tt = exprvc.types_for('c', 32)
    v, _ = exprvc.translate('c', 32, '(int32_t) (x)', {'x': exprvc.Val('x', tt['int8_t'])})
    res, _, _ = exprvc.z3_check([('x', 8)], '(not (= %s %s))' % (v.smt, exprvc.ext('x', 8, 32, False)))
    rep.add(Obligation('canary.z3', 'false claim (`(int32_t) x` zero-extends an int8_t) must be refuted', 'vacuity', 'z3',
                       status='discharged' if res == 'sat' else 'undecided'))
    rep.samples = [{'backend.instruction': k, 'template': v} for k, v in list(rep.extra['templates'].items())[:12]]
