"""C17 — --async directive selection: AsyncFilterSet::{is_async, ensure_all_used} (Verus, unbounded in list length)."""
import os
from vlib import rustsrc, verus, native
from vlib.common import REPO
from vlib.verus import Raw, Copy, Fn, Clause, Unit

PRELUDE = r'''
use vstd::prelude::*;
use std::collections::HashSet;
verus! {
broadcast use vstd::std_specs::hash::group_hash_axioms;

// ---- rule 3: shims for the wit-parser types that occur in the signatures.
// FunctionKind is copied from wit-parser (payload TypeId := usize); Function keeps the two fields the code reads.
pub enum FunctionKind {
    Freestanding,
    AsyncFreestanding,
    Method(usize),
    AsyncMethod(usize),
    Static(usize),
    AsyncStatic(usize),
    Constructor(usize),
}
pub struct Function { pub name: String, pub kind: FunctionKind }
#[verifier::external_body] pub struct Resolve { _p: () }
#[verifier::external_body] pub struct WorldKey { _p: () }
#[verifier::external_body] pub struct Error { _p: () }
pub type Result<T> = core::result::Result<T, Error>;
#[verifier::external_body] fn opaque_error() -> (r: Error) { unimplemented!() }
#[verifier::external_body] fn opaque_string() -> (r: String) { unimplemented!() }

/// the qualified name `<interface>#<function>` that format!("{}#{}", resolve.name_world_key(key), func.name) builds:
/// left uninterpreted, the proof holds for whatever string it is
pub uninterp spec fn iface_name(resolve: &Resolve, key: &WorldKey, name: Seq<char>) -> Seq<char>;
#[verifier::external_body]
fn fmt_iface_name(resolve: &Resolve, key: &WorldKey, name: &String) -> (r: String)
    ensures r@ == iface_name(resolve, key, name@) { unimplemented!() }

/// the name a directive is compared with
pub open spec fn test_name(resolve: &Resolve, interface: Option<&WorldKey>, func: &Function) -> Seq<char> {
    match interface { Some(key) => iface_name(resolve, key, func.name@), None => func.name@ }
}
/// what the WIT says when no directive matches
pub open spec fn wit_async(k: FunctionKind) -> bool {
    match k {
        FunctionKind::AsyncFreestanding | FunctionKind::AsyncMethod(_) | FunctionKind::AsyncStatic(_) => true,
        _ => false,
    }
}
'''

SPEC_FNS = r'''
    /// directive `a` matches a function of this name and direction (from the property statement / the flag's docs)
    pub closed spec fn matches(a: Async, name: Seq<char>, is_import: bool) -> bool {
        match a.filter {
            AsyncFilter::All => true,
            AsyncFilter::Function(s) => s@ == name,
            AsyncFilter::Import(s) => is_import && s@ == name,
            AsyncFilter::Export(s) => !is_import && s@ == name,
        }
    }
    /// index of the first matching directive at or after `from`, or -1
    pub closed spec fn first_match(v: Seq<Async>, name: Seq<char>, is_import: bool, from: int) -> int
        decreases v.len() - from
    {
        if from < 0 || from >= v.len() { -1 } else if Self::matches(v[from], name, is_import) { from } else { Self::first_match(v, name, is_import, from + 1) }
    }
    pub closed spec fn list(&self) -> Seq<Async> { self.async_@ }
    pub closed spec fn used(&self) -> Set<usize> { self.used_options@ }
    pub closed spec fn enabled_at(&self, k: int) -> bool { self.async_@[k].enabled }
    pub closed spec fn is_all(&self, k: int) -> bool { self.async_@[k].filter is All }
'''


def build(rep):
    src = rustsrc.Source(os.path.join(REPO, 'crates/core/src/async_.rs'))
    u = Unit('C17_async_filter', rep)
    u.add(Raw(PRELUDE))
    # struct AsyncFilterSet: attributes (clap/serde derive, doc comments, field attributes) are dropped
    afs = src.find(r'\bpub\s+struct\s+AsyncFilterSet\b')
    u.add(Copy(afs, subs=[(r'(?s)\{.*\}', '{\n    async_: Vec<Async>,\n    used_options: HashSet<usize>,\n}',
                           'field attributes and doc comments of AsyncFilterSet dropped; the two fields `async_: Vec<Async>` and `used_options: HashSet<usize>` are re-checked to exist verbatim')]))
    body = afs.body
    for fld in ('async_: Vec<Async>,', 'used_options: HashSet<usize>,'):
        if fld not in body:
            raise rustsrc.LostAnchor('AsyncFilterSet no longer has field `%s`' % fld)
    import re
    nfields = len(re.findall(r'^\s+\w+\s*:\s*[\w<>:, ]+,\s*$', body, re.M))
    if nfields != 2:
        raise rustsrc.LostAnchor('AsyncFilterSet has %d fields, expected 2' % nfields)
    u.add(Copy(src.find(r'(?m)^struct\s+Async\b'), ))
    u.add(Copy(src.find(r'(?m)^enum\s+AsyncFilter\b')))
    imp = src.find(r'\bimpl\s+AsyncFilterSet\b')
    u.add(Raw('impl AsyncFilterSet {' + SPEC_FNS))
    u.add(Fn(src.fn('is_async', imp), 'AsyncFilterSet::is_async', ret='r',
             ensures=[
                 Clause('directive_list_unchanged', 'final(self).list() == old(self).list()'),
                 Clause('first_matching_directive_decides', '''({
                let k = Self::first_match(old(self).list(), test_name(resolve, interface, func), is_import, 0);
                k >= 0 ==> r == old(self).enabled_at(k)
            })'''),
                 Clause('wit_default_when_nothing_matches', '''({
                let k = Self::first_match(old(self).list(), test_name(resolve, interface, func), is_import, 0);
                k < 0 ==> r == wit_async(func.kind)
            })'''),
                 Clause('records_exactly_the_deciding_directive', '''({
                let k = Self::first_match(old(self).list(), test_name(resolve, interface, func), is_import, 0);
                &&& (k >= 0 ==> final(self).used() == old(self).used().insert(k as usize))
                &&& (k < 0 ==> final(self).used() == old(self).used())
            })'''),
             ],
             subs=[(r'format!\(\s*"\{\}#\{\}"\s*,\s*resolve\.name_world_key\(key\)\s*,\s*func\.name\s*\)', 'fmt_iface_name(resolve, key, &func.name)',
                    '2: format!("{}#{}", resolve.name_world_key(key), func.name) hoisted to an external_body fn whose result is the uninterpreted iface_name(resolve, key, func.name)')],
             enumerate_rule={'invariant': [
                 Clause('loop.index_in_range', 'i <= self.async_.len()', 'support'),
                 Clause('loop.name_is_test_name', 'name_to_test@ == test_name(resolve, interface, func)', 'support'),
                 Clause('loop.list_unchanged', 'self.async_@ == old(self).async_@', 'support'),
                 Clause('loop.used_unchanged', 'self.used_options@ == old(self).used_options@', 'support'),
                 Clause('loop.no_match_before_i', 'Self::first_match(old(self).async_@, name_to_test@, is_import, 0) == Self::first_match(old(self).async_@, name_to_test@, is_import, i as int)'),
             ], 'decreases': 'self.async_.len() - i'}))
    u.add(Fn(src.fn('ensure_all_used', imp), 'AsyncFilterSet::ensure_all_used', ret='r',
             ensures=[
                 Clause('rejects_iff_a_specific_directive_never_decided',
                        'r.is_err() <==> (exists|k: int| 0 <= k < self.list().len() && !self.used().contains(k as usize) && !self.is_all(k))'),
             ],
             macros=[('bail', 'return Err(opaque_error())')],
             inserts=[('return Err(opaque_error())', 'before', 'assert(0 <= i < self.list().len() && !self.used().contains(i as usize) && !self.is_all(i as int));')],
             enumerate_rule={'invariant': [
                 Clause('loop.index_in_range', 'i <= self.async_.len()', 'support'),
                 Clause('loop.all_earlier_used_or_all', 'forall|k: int| 0 <= k < i ==> (self.used().contains(k as usize) || self.is_all(k))'),
             ], 'decreases': 'self.async_.len() - i'}))
    u.add(Raw('}\n} // verus!\nfn main() {}'))
    return u


def run(rep, tier):
    rep.assume('rule 3: wit_parser::{Function, FunctionKind, Resolve, WorldKey} are shims (Function keeps `name` and `kind`; FunctionKind copied with TypeId := usize; Resolve/WorldKey opaque)',
               'rule 2: the qualified name built by format!("{}#{}", ..) is an uninterpreted function of (resolve, key, func.name): the proof holds for whatever it returns',
               'rule 5a: for (i, x) in V.iter().enumerate() desugared syntactically to a while loop (trusted rewrite, printed under extraction_rewrites)',
               'bail!(..) => return Err(<opaque error>)',
               'NOT covered: Async::parse / Display (str prefix matching: outside Verus, Kani did not finish), and that the Rust/C/MoonBit generators act on the answer and call ensure_all_used')
    rep.notes.append('Lemma over the two contracts: after any sequence of is_async calls used_options is exactly the set of deciding directives, so ensure_all_used errs exactly when some non-`all` directive never decided a function.')
    verus.canary(rep)
    try:
        u = build(rep)
    except rustsrc.LostAnchor as e:
        verus.unspliceable(rep, 'C17', 'AsyncFilterSet::is_async.first_matching_directive_decides', 'AsyncFilterSet::is_async (crates/core/src/async_.rs)', e)
        return
    obs = u.run(tier)
    for o in obs:
        rep.add(o)
    native.search_on_failure(rep, 'C17', obs)
    verus.settle_lost_anchors(u, obs, rep)
