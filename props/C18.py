"""C18 — waitables registered, delivered and unregistered exactly (Kani, in-crate, inductive per operation)."""
from vlib import kani
from vlib.kani import Harness
from . import rt_common as rc

W = 'crates/guest-rust/src/rt/async_support/waitable.rs'
F = 'WaitableOperation::{new,poll_complete,poll_complete_with_code,register_waker,unregister_waker,cancel,drop}, CabiTask::{new,unregister,drop} (%s)' % W
HARNESSES = [
    Harness('c18_poll_from_start', 'waitable.poll_from_start_registers_once_or_completes', F),
    Harness('c18_repoll_keeps_single_registration', 'waitable.repoll_reuses_registration', F),
    Harness('c18_delivery_exactly_once', 'waitable.completion_delivered_and_processed_exactly_once', F),
    Harness('c18_cancel_from_every_state', 'waitable.cancel_only_when_unregistered_once_never_after_completion', F),
    Harness('c18_drop_from_every_state', 'waitable.drop_leaves_no_registration', F),
    Harness('c18_cross_task_move', 'waitable.move_between_tasks_unregisters_previous_task', F),
    Harness('c18_v1_task_never_cloned', 'waitable.v1_task_not_cloned', F, kind='support'),
]


def run(rep, tier):
    rep.assume(*rc.HOST_ASSUMPTIONS)
    rep.assume('WaitableOperation is verified against an abstract WaitableOp (MockOp) whose answers are symbolic: every start code, '
               'every delivered code, every cancel answer; concrete ops are checked under C19-C21',
               'all-histories argument: the harnesses reach every abstract state of WaitableOperation (Start, InProgress with/without a '
               'delivered code, Done; task none/v1/v2-same/v2-other) through its public API and check one step from each, so the '
               'representation invariant is inductive; no interleaving bound applies')
    kani.run_harnesses(rep, rc.CRATE, HARNESSES, rc.FEATURES, rc.TARGET, harness_file='/verif/harness/c18.rs')
    for f in [W, 'crates/guest-rust/src/rt/async_support/cabi.rs']:
        rep.functions.append(f + ' (real code, driven in place by in-crate harnesses /verif/harness/c18.rs)')
