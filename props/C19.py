"""C19 — stream writes/reads transfer each value exactly once, in order (Kani, in-crate)."""
import os, re
from vlib import kani
from vlib.kani import Harness
from . import rt_common as rc
from . import rustgen

S = 'crates/guest-rust/src/rt/async_support/stream_support.rs'
A = 'crates/guest-rust/src/rt/async_support/abi_buffer.rs'
FA = 'AbiBuffer::{new,abi_ptr_and_len,remaining,advance,take_vec,into_vec,drop} (%s)' % A
FW = 'RawStreamWriter::{new,write,write_buf,drop}, StreamWriteOp::{start,in_progress_update,in_progress_cancel}, RawStreamWrite::{poll,cancel} (%s) + AbiBuffer + WaitableOperation + ReturnCode::decode' % S
FR = 'RawStreamReader::{new,read,take_handle,drop}, StreamReadOp::{start,in_progress_update,in_progress_cancel}, RawStreamRead::{poll,cancel} (%s) + WaitableOperation + ReturnCode::decode' % S
B_BUF = 'buffer length fixed per harness (0,1,2 or 3 items; cursor/advance amounts symbolic); loops unwound with unwinding assertions (complete for that length)'
B_OP = 'vector length 2 (0 for one harness) / spare capacity 2; every code the ABI allows for that length is enumerated ({COMPLETED,DROPPED,CANCELLED} x 0..=len); loops unwound with unwinding assertions'


def harnesses(tier):
    hs = []
    for n in ['c19_abibuf_canonical_len0', 'c19_abibuf_canonical_len1', 'c19_abibuf_canonical_len3', 'c19_abibuf_lowered_len0',
              'c19_abibuf_lowered_len1', 'c19_abibuf_lowered_len3', 'c19_abibuf_lowered_nolists_len2', 'c19_abibuf_dropped_len2']:
        hs.append(Harness(n, 'abi_buffer.' + n[len('c19_abibuf_'):], FA, bounded=B_BUF))
    for n in ['c19_write_canonical_len2_immediate', 'c19_write_canonical_len2_delivered', 'c19_write_canonical_len2_cancelled',
              'c19_write_lowered_len2_immediate', 'c19_write_lowered_len2_delivered', 'c19_write_lowered_len2_cancelled',
              'c19_write_canonical_len0_immediate', 'c19_write_after_peer_dropped', 'c19_write_after_partial_completed', 'c19_write_after_partial_cancelled']:
        hs.append(Harness(n, 'stream_write.' + n[len('c19_write_'):], FW, bounded=B_OP))
    def rd(n, sp):
        hs.append(Harness(n, 'stream_read.' + n[len('c19_read_'):], FR, bounded=B_OP.replace('spare capacity 2', 'spare capacity %s' % sp)))
    for layout in ['canonical', 'lowered']:
        rd('c19_read_%s_immediate_s2' % layout, 2)
        rd('c19_read_%s_cancelled_s1' % layout, 1)
        if tier == 'thorough':
            rd('c19_read_%s_immediate_s1' % layout, 1)
            rd('c19_read_%s_cancelled_s2' % layout, 2)
    for kn in ['completed', 'dropped', 'cancelledcode']:
        rd('c19_read_canonical_delivered_%s_s1' % kn, 1)
        if tier == 'thorough':
            # (measured: ~8 min each; the delivered path runs the same in_progress_update as the cancelled path)
            rd('c19_read_canonical_delivered_%s_s2' % kn, 2)
            rd('c19_read_lowered_delivered_%s_s1' % kn, 1)
    rd('c19_read_after_partial_completed', 2)
    rd('c19_read_after_partial_cancelled', 2)
    hs.append(Harness('c19_read_after_peer_dropped', 'stream_read.after_peer_dropped', FR, bounded=B_OP))
    hs.append(Harness('c19_take_handle_transfers_ownership', 'stream_reader.take_handle_transfers_ownership', FR))
    return hs


LEVEL = 'other'   # 28 of 29 obligations fix the buffer length: bounded stand-in, not a proof


def run(rep, tier):
    rep.assume(*rc.HOST_ASSUMPTIONS)
    rep.assume('static-dispatch mock StreamOps (the `&StreamVtable<T>` impl is 13 one-line forwarders, not covered here)',
               'bounded in buffer length (<= 3) — labelled bounded, not counted as proved; complete over the codes the ABI allows for that length',
               'NOT covered: write_all / write_one / next / collect loops and the futures::Stream adapter (compose the verified single operations); MAX_LENGTH clamp (needs 2^28 items)',
               'composition argument: registration/unregistration/delivery of the waitable is C18; this property adds the per-operation contracts',
               'the in-crate obligations use a mock StreamOps whose lower / lift / dealloc_lists only count calls; what the GENERATED hooks do (and that a payload whose lowering allocates has a dealloc_lists hook at all) is decided on the real generator\'s output for one probe world (payload.* obligations, heap ledger as in C06)')
    quick = harnesses('quick')
    kani.run_harnesses(rep, rc.CRATE, quick, rc.FEATURES, rc.TARGET, timeout_each=400, harness_file='/verif/harness/c19.rs', jobs=10)
    if tier == 'thorough':
        # the thorough-only read harnesses need up to 25 GB of CBMC memory each (measured): two at a time on a 62 GB machine,
        # after the quick set has finished (six at a time was killed by the kernel once, which shows up as undecided, exit 2)
        names = {h.name for h in quick}
        extra = [h for h in harnesses('thorough') if h.name not in names]
        kani.run_harnesses(rep, rc.CRATE, extra, rc.FEATURES, rc.TARGET, timeout_each=2400, harness_file='/verif/harness/c19.rs', jobs=2, canary_id='canary.kani.thorough')
    rep.functions.append(S + ', ' + A + ' (real code, driven in place by /verif/harness/c19.rs)')
    # the generated side: the payload vtables the real Rust generator emits (which hooks exist, and what they free)
    GP = 'generated StreamVtable<T> for kani/rustgen_strm/probe.wit (crates/rust/src/interface.rs generate_payload: lower / lift / dealloc_lists / layout) - '
    BP = 'one probe world; string length fixed per obligation (0, 1, 2), contents symbolic; both outcomes (transferred / not transferred)'
    PAY = [Harness('c19_payload_string_len%d' % n, 'payload.string_len%d' % n, GP + 'stream<string>, %d byte(s)' % n, bounded=BP) for n in (0, 1, 2)] + \
          [Harness('c19_payload_record_with_string_len%d' % n, 'payload.record_with_string_len%d' % n, GP + 'stream<record { u32, string }>, %d byte(s)' % n, bounded=BP) for n in (0, 1)] + \
          [Harness('c19_payload_without_heap_needs_no_release', 'payload.without_heap_needs_no_release', GP + 'stream<u8> (canonical) and stream<bool>', bounded=BP)]
    d = rustgen.generate(rep, 'rustgen_strm')
    kani.run_harnesses(rep, d, PAY, None, 'kani-rustgen', timeout_each=900, harness_file=os.path.join(d, 'src/lib.rs'), guard=False, canary_id='canary.kani.payload')
