"""C20 — futures deliver exactly one value and never strand a writer (Kani, in-crate)."""
from vlib import kani
from vlib.kani import Harness
from . import rt_common as rc

S = 'crates/guest-rust/src/rt/async_support/future_support.rs'
FW = 'RawFutureWriter::{write,drop}, FutureWriteOp::{start,start_cancelled,in_progress_update,in_progress_cancel,result_into_cancel}, RawFutureWrite::{poll,cancel} (%s) + WaitableOperation' % S
FR = 'RawFutureReader::{new,take_handle,into_future,drop}, FutureReadOp::{start,start_cancelled,in_progress_update,in_progress_cancel,result_into_cancel}, RawFutureRead::{poll,cancel} (%s) + WaitableOperation + ReturnCode::decode' % S
FT = 'future_new, FutureWriter::{new,write,drop}, FutureWrite::{poll,cancel,drop}, impl FutureOps for &FutureVtable<T> (%s)' % S
RAW = [
    ('c20_write_immediate_completed', FW), ('c20_write_immediate_dropped', FW), ('c20_write_delivered_completed', FW),
    ('c20_write_delivered_dropped', FW), ('c20_write_cancel_completed', FW), ('c20_write_cancel_dropped', FW),
    ('c20_write_cancel_cancelled', FW), ('c20_write_delivered_then_cancelled_completed', FW), ('c20_write_delivered_then_cancelled_dropped', FW), ('c20_write_dropped_inflight_completed', FW), ('c20_write_dropped_inflight_cancelled', FW),
    ('c20_read_immediate', FR), ('c20_read_delivered', FR), ('c20_read_delivered_then_cancelled', FR), ('c20_read_cancel_completed', FR), ('c20_read_cancel_cancelled', FR),
    ('c20_read_dropped_inflight_cancelled', FR), ('c20_read_dropped_inflight_completed', FR), ('c20_reader_never_read_dropped_once', FR),
]
TYPED = ['c20_typed_unwritten_writer_dropped', 'c20_typed_write_dropped_unpolled', 'c20_typed_cancel_completed', 'c20_typed_cancel_dropped',
         'c20_typed_cancel_cancelled', 'c20_typed_dropped_inflight_cancelled', 'c20_typed_dropped_inflight_completed',
         'c20_typed_dropped_inflight_dropped']


def run(rep, tier):
    rep.assume(*rc.HOST_ASSUMPTIONS)
    rep.assume('op tables: one harness per (operation, way the answer arrives, answer) — the codes a future operation can receive are the finite set '
               '{BLOCKED, COMPLETED, DROPPED, CANCELLED}, enumerated completely; payload is one 2-byte lowered value (Cleanup poison loop unwound 5x with unwinding assertions)',
               'typed wrappers are checked with RawFutureWriter::write_and_forget replaced by a recording stub (kani::stub): that FutureWriter::drop / '
               'FutureWrite::cancel / FutureWrite::drop hand the default value to write_and_forget before any drop-writable; write_and_forget itself '
               '(an Arc that is its own Waker: recursion through the waker vtable) is NOT verified in the quick tier')
    hs = [Harness(n, 'future.' + n[len('c20_'):], f) for n, f in RAW] + [Harness(n, 'future.' + n[len('c20_'):], FT) for n in TYPED]
    kani.run_harnesses(rep, rc.CRATE, hs, rc.FEATURES, rc.TARGET, timeout_each=400, harness_file='/verif/harness/c20.rs')
    rep.functions.append(S + ' (real code, driven in place by /verif/harness/c20.rs)')
