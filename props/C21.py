"""C21 — async import calls release parameters/results exactly once (Kani, in-crate; complete status language)."""
from vlib import kani
from vlib.kani import Harness
from . import rt_common as rc

S = 'crates/guest-rust/src/rt/async_support/subtask.rs'
F = 'Subtask::call, SubtaskOps::{start,in_progress_update,in_progress_cancel,start_cancelled}, InProgress::{flag_started,ptr_results}, SubtaskHandle::drop (%s) composed with the real WaitableOperation' % S
HARNESSES = [
    Harness('c21_returned_immediately', 'subtask.seq[RETURNED]', F),
    Harness('c21_started_then_dropped', 'subtask.seq[STARTED,drop]', F),
    Harness('c21_started_then_returned', 'subtask.seq[STARTED,RETURNED]', F),
    Harness('c21_starting_then_dropped', 'subtask.seq[STARTING,drop]', F),
    Harness('c21_starting_started_then_dropped', 'subtask.seq[STARTING,STARTED,drop]', F),
    Harness('c21_starting_then_returned', 'subtask.seq[STARTING,RETURNED]', F),
    Harness('c21_starting_started_returned', 'subtask.seq[STARTING,STARTED,RETURNED]', F),
    Harness('c21_never_polled_call_is_inert', 'subtask.unpolled_call_is_inert', F, kind='support'),
]


def run(rep, tier):
    rep.assume(*rc.HOST_ASSUMPTIONS)
    rep.assume('the generated-bindings side (trait Subtask) is a logging mock; generated Subtask impls are not covered',
               'status language: RETURNED | STARTING -> (STARTED ->)? RETURNED, a drop (=> subtask.cancel) allowed at every non-terminal point, '
               'cancel answering STARTED_CANCELLED only from STARTING, RETURNED_CANCELLED or RETURNED otherwise: enumerated completely '
               '(symbolic), this is the whole language, not a bound',
               'leak of the params/results block is not observable in this harness (double free / use after free are: CBMC memory checks)')
    kani.run_harnesses(rep, rc.CRATE, HARNESSES, rc.FEATURES, rc.TARGET, timeout_each=300, harness_file='/verif/harness/c21.rs')
    rep.functions.append(S + ' (real code, driven in place by /verif/harness/c21.rs)')
