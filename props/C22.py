"""C22 — export task executor: one executor step per harness (Kani, in-crate), from directly constructed pre-states."""
LEVEL = 'other'   # bounded stand-in: sampled abstract states, <= 1 waitable
from vlib import kani
from vlib.kani import Harness
from . import rt_common as rc

A = 'crates/guest-rust/src/rt/async_support.rs'
B = 'one registered waitable (two in one obligation) (two-slot map model), scripted Rust work, one executor step per harness'
T = 'TaskState::{new, callback, remaining_work, deliver_waitable_event, with_p3_task_set, drop} (%s)' % A
HARNESSES = [
    Harness('c22_callback_code_encoding', 'encode.exit0_yield1_wait2_set_in_upper_bits', 'CallbackCode::encode (%s)' % A),
    Harness('c22_ready_without_waitables_exits', 'step.no_work_no_waitables_exits', T, bounded=B),
    Harness('c22_pending_on_waitable_waits_on_own_set', 'step.pending_on_waitable_waits_on_own_set', T, bounded=B),
    Harness('c22_event_is_delivered_once_then_exit', 'step.event_delivered_once_after_leaving_set_then_exit', T, bounded=B),
    Harness('c22_task_drop_releases_set_once', 'step.task_drop_runs_destructors_once_with_task_installed', T, bounded=B),
    Harness('c22_woken_during_poll_yields', 'step.woken_during_poll_yields', T, bounded=B),
    Harness('c22_finished_work_with_registered_waitable_waits', 'step.finished_work_with_registered_waitable_waits', T, bounded=B),
    Harness('c22_finished_work_last_event_exits_without_polling', 'step.finished_work_last_event_exits_without_polling', T, bounded=B),
    Harness('c22_woken_with_waitables_polls_set_then_yields', 'step.woken_with_waitables_polls_set_then_yields', T, bounded=B),
    Harness('c22_woken_with_ready_event_delivers_then_polls_again', 'step.woken_with_ready_event_delivers_then_polls_again', T, bounded=B),
    Harness('c22_cancel_event_exits_without_polling', 'step.cancel_event_exits_without_polling', T, bounded=B),
    Harness('c22_start_task_stores_state_and_answers_like_first_callback', 'wrapper.start_task_stores_state_slot_empty_while_running', 'start_task, callback (%s)' % A, bounded=B),
    Harness('c22_start_task_that_finishes_releases_everything', 'wrapper.start_task_that_finishes_releases_once', 'start_task, callback (%s)' % A, bounded=B),
    Harness('c22_callback_wrapper_puts_state_back_unless_exit', 'wrapper.callback_puts_same_state_back_unless_exit', 'callback (%s)' % A, bounded=B),
    Harness('c22_callback_wrapper_releases_once_on_exit', 'wrapper.callback_releases_task_once_on_exit', 'callback (%s)' % A, bounded=B),
    Harness('c22_callback_wrapper_cancel_releases_once', 'wrapper.cancel_releases_task_once_destructors_see_task', 'callback, TaskState::drop (%s)' % A, bounded=B),
    Harness('c22_two_waitables_exit_only_after_both_completed', 'step.two_waitables_exit_only_after_both', T, bounded='two registered waitables, either completion order, finished work'),
    Harness('c22_block_on_ready_future_returns_without_waiting', 'block_on.ready_future_returns_without_waiting', 'block_on (%s)' % A, bounded=B),
    Harness('c22_block_on_yield_without_any_waitable_returns', 'block_on.yield_without_any_waitable_returns', 'block_on (%s)' % A, bounded=B),
    Harness('c22_block_on_waits_on_own_set_until_the_event_then_returns', 'block_on.waits_on_own_set_delivers_event_once_returns', 'block_on (%s)' % A, bounded=B + '; two loop iterations'),
    Harness('c22_register_unregister_keep_map_and_set_in_step', 'cabi.register_unregister_keep_map_and_set_in_step', 'SharedTaskState::{waitable_register, waitable_unregister, add_waitable} (%s)' % A, bounded=B),
    Harness('c22_task_handle_clone_and_drop_balance_set_released_once', 'cabi.task_handle_clone_drop_balance_set_released_once', 'SharedTaskState::{cabi_clone, cabi_drop, cabi_to_self}, Drop (%s)' % A, bounded=B),
]


THOROUGH = [
    Harness('c22t_three_step_history_start_event_yield_exit', 'history.start_event_yield_exit', 'start_task, callback x2 (%s)' % A, bounded=B + '; one three-step history'),
]


def run(rep, tier):
    rep.assume(*rc.HOST_ASSUMPTIONS)
    rep.assume('BOUNDED stand-in, not a proof: each harness performs exactly one executor step from a pre-state constructed directly (two steps in '
               'one harness did not finish under CBMC); the pre-states used are the post-states other harnesses establish, but the abstract state '
               'space is sampled (Rust work: ready / pending on a waitable / pending and woken / pending idle / finished; waitables: none or one), not '
               'enumerated exhaustively; event codes are symbolic where the step reads them',
               'under the model checker only, the task\'s waitable map is a two-slot finite map kept in a static (hook 6328f56, harness/btmodel.rs): '
               'BTreeMap insert/remove/is_empty are trusted, at most one task exists per harness',
               'not covered: block_on beyond two loop iterations, spawned work (feature async-spawn, FuturesUnordered), TaskCancelOnDrop, more than one registered waitable')
    kani.run_harnesses(rep, rc.CRATE, HARNESSES + (THOROUGH if tier == 'thorough' else []), rc.FEATURES, rc.TARGET, harness_file='/verif/harness/c22.rs', timeout_each=(2400 if tier == 'thorough' else 900))
    rep.functions.append(A + ' (real code, driven in place by in-crate harnesses /verif/harness/c22.rs)')
