"""C23 — cross-task wakeups never lost or duplicated (Kani, in-crate, feature inter-task-wakeup; one operation per harness)."""
from vlib import kani
from vlib.kani import Harness
from . import rt_common as rc

A = 'crates/guest-rust/src/rt/async_support.rs'
I = 'crates/guest-rust/src/rt/async_support/inter_task_wakeup.rs'
F1 = 'TaskState::{read_inter_task_stream, cancel_inter_task_stream_read, drop} (%s, %s)' % (I, A)
HARNESSES = [
    Harness('c23_sleep_starts_exactly_one_read', 'wakeup.sleep_starts_exactly_one_read_cancelled_before_destroy', F1),
    Harness('c23_cancel_leaves_set_first_then_cancels_once', 'wakeup.cancel_leaves_set_first_then_cancels_once', F1),
    Harness('c23_wakeup_event_consumed_once', 'wakeup.event_consumed_by_runtime_exactly_for_its_stream', 'inter_task_wakeup::State::consume_waitable_event (%s)' % I),
    Harness('c23_wake_writes_one_item_per_sleep', 'wakeup.one_item_per_sleep_repeats_coalesced', 'SharedTaskState::{wake, wake_by_ref}, WakerState::wake (%s, %s)' % (A, I)),
    Harness('c23_wake_rejects_undefined_sleep_state', 'wakeup.undefined_sleep_state_rejected', 'SharedTaskState::wake_by_ref (%s)' % A, kind='support'),
    Harness('c23_idle_task_sleeps_with_a_pending_read', 'wakeup.idle_task_sleeps_with_pending_read_and_is_wakeable', 'TaskState::callback (%s)' % A),
    Harness('c23_wakeup_event_polls_task_again_without_cancel', 'wakeup.event_polls_task_again_read_not_cancelled', 'TaskState::{callback, deliver_waitable_event} (%s)' % A),
    Harness('c23_other_event_cancels_pending_read_before_polling', 'wakeup.pending_read_cancelled_before_next_poll', 'TaskState::{callback, cancel_inter_task_stream_read} (%s, %s)' % (A, I)),
    Harness('c23_yield_leaves_task_woken_not_sleeping', 'wakeup.yield_does_not_mark_task_sleeping', 'TaskState::callback, SharedTaskState::wake_by_ref (%s)' % A),
]


def run(rep, tier):
    rep.assume(*rc.HOST_ASSUMPTIONS)
    rep.assume('the host delivers the stream-read event of the wakeup stream after a write to it (mock; "the woken task is polled again" is '
               'proved from the point where that event is reported)',
               'all-histories argument: the representation invariant (stream_reading <=> a unit read is pending at the host and joined to the '
               'task\'s own set; at most one stream) is checked after every operation that touches the wakeup state, each from every reachable '
               'abstract state, so it is inductive; sleep states are enumerated completely',
               'under the model checker only, the waitable map of the task is the two-slot finite map of hook 6328f56 (it holds at most one '
               'entry in these harnesses)')
    kani.run_harnesses(rep, rc.CRATE, HARNESSES, rc.FEATURES_ITW, rc.TARGET, harness_file='/verif/harness/c23.rs', timeout_each=900)
    for f in [A, I]:
        rep.functions.append(f + ' (real code, driven in place by in-crate harnesses /verif/harness/c23.rs)')
