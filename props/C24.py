"""C24 — guest allocation entry points: cabi_realloc (extracted verbatim, Kani), Cleanup (in-crate, Kani)."""
import os, re, shutil
from vlib import kani, rustsrc
from vlib.kani import Harness
from vlib.common import REPO, VERIF, BUILD, Undecided
from . import rt_common as rc

M = 'crates/guest-rust/src/rt/mod.rs'


def gen_realloc_crate(rep):
    src = rustsrc.Source(os.path.join(REPO, M))
    it = src.find(r'\bpub\s+unsafe\s+fn\s+cabi_realloc\b')
    text = it.src[it.hdr:it.close + 1]
    dropped = [l.strip() for l in it.attrs.splitlines() if l.strip()]
    d = os.path.join(BUILD, 'kani', 'c24')
    os.makedirs(os.path.join(d, 'src'), exist_ok=True)
    shutil.copy(os.path.join(VERIF, 'kani/c24/Cargo.toml'), os.path.join(d, 'Cargo.toml'))
    tmpl = open(os.path.join(VERIF, 'kani/c24/src/lib.rs.in')).read()
    with open(os.path.join(d, 'src/lib.rs'), 'w') as f:
        f.write(tmpl.replace('//@EXTRACTED@', text))
    rep.functions.append('%s:%d fn `cabi_realloc` sha256/16=%s (verbatim copy into a harness crate; dropped: %s)' % (
        it.path, it.line, it.sha(), '; '.join(dropped)))
    rep.rewrites.append({'where': '%s:%d' % (it.path, it.line), 'rule': 'attributes/doc comments above the item dropped', 'dropped': dropped})
    return d


def run(rep, tier):
    rep.assume('the global allocator honours the GlobalAlloc contract (stubs: non-deterministic null-or-aligned pointer; they flag calls outside the contract)',
               'the host calls cabi_realloc only as the canonical ABI does: power-of-two alignment, sizes below isize::MAX, a non-zero old_len names a live block of exactly (old_len, align), and such a block is never resized to zero',
               'x86-64 usize (64-bit) stands in for wasm32 usize',
               'bounded stand-in: contents preservation uses Kani\'s allocator model with sizes <= 8')
    d = gen_realloc_crate(rep)
    hs = [
        Harness('c24_realloc_contract', 'cabi_realloc.contract_all_arguments', 'cabi_realloc (%s)' % M),
        Harness('c24_realloc_aborts_on_failure', 'cabi_realloc.failure_aborts', 'cabi_realloc (%s)' % M),
        Harness('c24_realloc_preserves_contents', 'cabi_realloc.contents_preserved', 'cabi_realloc (%s)' % M,
                bounded='block sizes 1..=8, alignment 1 or 4 (Kani allocator model), unwinding assertions on'),
    ]
    kani.run_harnesses(rep, d, hs, None, 'kani-c24', timeout_each=300, harness_file=os.path.join(d, 'src/lib.rs'), playback_features='values-only', guard=False)
    # Cleanup: real code in place
    F = 'Cleanup::{new,forget,drop} (%s)' % M
    hs2 = [
        Harness('c24_cleanup_null_iff_zero_size', 'cleanup.null_iff_zero_size_freed_once_same_layout', F,
                bounded='layout size <= 6 for the poison loop (unwinding assertions on); alignment 1,2,4,8'),
        Harness('c24_cleanup_forget_does_not_free', 'cleanup.forget_keeps_block', F, bounded='layout size <= 6'),
    ]
    kani.run_harnesses(rep, rc.CRATE, hs2, rc.FEATURES, rc.TARGET, timeout_each=300, harness_file='/verif/harness/c24.rs')
    rep.functions.append(M + ' Cleanup (real code, driven in place by /verif/harness/c24.rs)')
