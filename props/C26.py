"""C26 — fresh temporary names never collide with defined names (Verus, unbounded)."""
import os
from vlib import rustsrc, verus, native
from vlib.common import REPO, Obligation
from vlib.verus import Raw, Copy, Fn, Clause, Unit

PRELUDE = r'''
use vstd::prelude::*;
use std::collections::HashSet;
verus! {
broadcast use vstd::std_specs::hash::group_hash_axioms;

// ---- trusted: String is a valid hash key, and String <-> Seq<char> is a bijection
#[verifier::external_body]
proof fn axiom_string_key_model() ensures vstd::std_specs::hash::obeys_key_model::<String>() {}
pub uninterp spec fn string_of(n: Seq<char>) -> String;
#[verifier::external_body]
proof fn axiom_string_view_bijective()
    ensures forall|a: String| #[trigger] string_of(a@) == a, forall|n: Seq<char>| #[trigger] string_of(n)@ == n {}
// ---- rule 2: format!(..) => arbitrary String
#[verifier::external_body]
fn opaque_string() -> (r: String) { unimplemented!() }
'''

SPEC_FNS = r'''
    /// abstract view: the set of names (as character sequences) defined or handed out so far
    pub closed spec fn has(&self, n: Seq<char>) -> bool { self.defined@.contains(string_of(n)) }
'''

GHOST = 'proof { axiom_string_key_model(); axiom_string_view_bijective(); }'


def build(rep):
    src = rustsrc.Source(os.path.join(REPO, 'crates/core/src/ns.rs'))
    u = Unit('C26_ns', rep)
    u.add(Raw(PRELUDE))
    u.add(Copy(src.find(r'\bstruct\s+Ns\b'), keep_attrs=('#[derive(Default)]',)))
    imp = src.find(r'\bimpl\s+Ns\b')
    u.add(Raw('impl Ns {' + SPEC_FNS))
    u.add(Fn(src.fn('insert', imp), 'Ns::insert', ret='ret',
             ensures=[
                 Clause('conflict_reported_iff_defined', 'ret.is_ok() <==> !old(self).has(name@)'),
                 Clause('defines_exactly_name', 'forall|n: Seq<char>| final(self).has(n) == (old(self).has(n) || n == name@)'),
             ],
             at_start=GHOST))
    u.add(Fn(src.fn('tmp', imp), 'Ns::tmp', ret='ret',
             attrs=['#[verifier::exec_allows_no_decreases_clause]'],
             ensures=[
                 Clause('fresh_not_previously_defined', '!old(self).has(ret@)'),
                 Clause('fresh_becomes_defined_nothing_else', 'forall|n: Seq<char>| final(self).has(n) == (old(self).has(n) || n == ret@)'),
             ],
             at_start=GHOST,
             loops={1: {'invariant': [Clause('loop_frame_defined_unchanged', 'self.defined@ == old(self).defined@', 'support')]}},
             inserts=[('self.tmp += 1', 'before', 'assume(self.tmp < usize::MAX); // rule 6: counter overflow assumed away')]))
    u.add(Raw('}\n} // verus!\nfn main() {}'))
    return u


def run(rep, tier):
    rep.assume('partial correctness only: termination of Ns::tmp is not claimed',
               'rule 6: the counter Ns::tmp never reaches usize::MAX (assume)',
               'format!(..) is replaced by an arbitrary String: the proof holds for whatever it returns',
               'String values are in bijection with their Seq<char> views (trusted axiom); String obeys the HashSet key model (trusted axiom; vstd ships it for integers only)',
               'std HashSet behaves as vstd specifies (insert/contains)')
    verus.canary(rep)
    try:
        u = build(rep)
    except rustsrc.LostAnchor as e:
        verus.unspliceable(rep, 'C26', 'Ns::tmp.fresh_not_previously_defined', 'Ns::tmp / Ns::insert (crates/core/src/ns.rs)', e)
        return
    obs = u.run(tier)
    for o in obs:
        rep.add(o)
    # induction lemma (stated here, discharged by the two contracts): every name handed out is inserted, so by
    # induction over any sequence of insert/tmp calls a fresh name differs from all earlier ones.
    native.search_on_failure(rep, 'C26', obs)
    verus.settle_lost_anchors(u, obs, rep)
