"""C28 (partial) — the equivalence-class machinery of the type analysis: UnionFind::{find, union} (Verus, unbounded)
and TypeInfo's `|=` (Kani, complete over all 2^16 flag combinations)."""
import os
from vlib import rustsrc, verus, native, kani
from vlib.kani import Harness
from vlib.common import VERIF, BUILD, Undecided
from vlib.common import REPO
from vlib.verus import Raw, Copy, Fn, Clause, Unit

PRELUDE = r'''
use vstd::prelude::*;
use std::collections::HashMap;
verus! {
// rule 3: wit_parser::TypeId (id_arena::Id) compares by index within one arena
pub type TypeId = usize;
broadcast use vstd::std_specs::hash::group_hash_axioms;

pub assume_specification<T: Copy>[ Option::<&T>::copied ](o: Option<&T>) -> (r: Option<T>)
    ensures r == (match o { Some(x) => Some(*x), None => None::<T> });

/// representation invariant: every parent link points to a strictly smaller id (=> acyclic, find terminates)
pub open spec fn wf_map(m: Map<TypeId, TypeId>) -> bool {
    forall|k: TypeId| #[trigger] m.contains_key(k) ==> m[k] < k
}
/// abstract view: the representative of id's class
pub open spec fn root_of(m: Map<TypeId, TypeId>, id: TypeId) -> TypeId
    decreases id
{
    if wf_map(m) && m.contains_key(id) { root_of(m, m[id]) } else { id }
}
/// the relation the property talks about: "treated as the same type"
pub open spec fn same(m: Map<TypeId, TypeId>, x: TypeId, y: TypeId) -> bool { root_of(m, x) == root_of(m, y) }

pub proof fn lemma_root_props(m: Map<TypeId, TypeId>, id: TypeId)
    requires wf_map(m),
    ensures root_of(m, id) <= id, !m.contains_key(root_of(m, id)), root_of(m, root_of(m, id)) == root_of(m, id),
    decreases id
{
    if m.contains_key(id) { lemma_root_props(m, m[id]); }
}
/// `same` is an equivalence relation, so a class has one canonical representative
pub proof fn lemma_same_is_equivalence(m: Map<TypeId, TypeId>, x: TypeId, y: TypeId, z: TypeId)
    ensures same(m, x, x), same(m, x, y) ==> same(m, y, x), same(m, x, y) && same(m, y, z) ==> same(m, x, z),
{}
// path compression: pointing a non-root directly at its root changes no root
pub proof fn lemma_compress(m: Map<TypeId, TypeId>, a: TypeId, x: TypeId)
    requires wf_map(m), m.contains_key(a),
    ensures wf_map(m.insert(a, root_of(m, a))), root_of(m.insert(a, root_of(m, a)), x) == root_of(m, x),
    decreases x
{
    let r = root_of(m, a);
    let m2 = m.insert(a, r);
    lemma_root_props(m, a);
    lemma_root_props(m, m[a]);
    assert(r < a);
    assert(wf_map(m2)) by {
        assert forall|k: TypeId| #[trigger] m2.contains_key(k) implies m2[k] < k by {
            if k == a { } else { assert(m.contains_key(k)); }
        }
    }
    if x == a {
        assert(!m.contains_key(r));
        assert(!m2.contains_key(r));
        assert(root_of(m2, r) == r);
        assert(root_of(m2, a) == root_of(m2, m2[a]));
    } else if m.contains_key(x) {
        lemma_compress(m, a, m[x]);
        assert(m2.contains_key(x) && m2[x] == m[x]);
    } else {
        assert(!m2.contains_key(x));
    }
}
// linking root `hi` under root `lo` (lo < hi) moves exactly hi's class
pub proof fn lemma_link(m: Map<TypeId, TypeId>, lo: TypeId, hi: TypeId, x: TypeId)
    requires wf_map(m), !m.contains_key(lo), !m.contains_key(hi), lo < hi,
    ensures wf_map(m.insert(hi, lo)),
        root_of(m.insert(hi, lo), x) == (if root_of(m, x) == hi { lo } else { root_of(m, x) }),
    decreases x
{
    let m2 = m.insert(hi, lo);
    assert(wf_map(m2)) by {
        assert forall|k: TypeId| #[trigger] m2.contains_key(k) implies m2[k] < k by {
            if k == hi { } else { assert(m.contains_key(k)); }
        }
    }
    if x == hi {
        assert(!m2.contains_key(lo));
        assert(root_of(m2, lo) == lo);
        assert(root_of(m2, hi) == root_of(m2, m2[hi]));
        assert(root_of(m, hi) == hi);
    } else if m.contains_key(x) {
        lemma_link(m, lo, hi, m[x]);
        assert(m2.contains_key(x) && m2[x] == m[x]);
    } else {
        assert(!m2.contains_key(x));
        assert(root_of(m, x) == x);
    }
}
'''

FIND_BEFORE_REC = r'''
let ghost m0 = self.parent@;
proof {
    let o = m0.get(id);
    assert(m0.contains_key(id) && m0[id] == parent);
}
'''
FIND_AFTER_REC = r'''
let ghost m1 = self.parent@;
proof {
    assert(root_of(m1, id) == root_of(m0, id));
    lemma_root_props(m0, parent);
    assert(m1.contains_key(id)) by {
        lemma_root_props(m0, id);
        if !m1.contains_key(id) { assert(root_of(m1, id) == id); assert(root_of(m0, id) == root_of(m0, parent)); }
    }
    assert(root == root_of(m1, id));
    assert forall|x: TypeId| root_of(m1.insert(id, root), x) == root_of(m0, x) by { lemma_compress(m1, id, x); }
    lemma_compress(m1, id, id);
}
'''
FIND_ELSE = r'''
proof { if self.parent@.contains_key(id) { assert(self.parent@[id] < id); } }
'''
UNION_AFTER_FINDS = r'''
let ghost m2 = self.parent@;
proof {
    lemma_root_props(m0, a); lemma_root_props(m0, b); lemma_root_props(m2, a); lemma_root_props(m2, b);
    assert(ra == root_of(m2, a) && rb == root_of(m2, b));
    assert forall|x: TypeId| true implies
        root_of(m2.insert(rb, ra), x) == (if root_of(m2, x) == rb { ra } else { root_of(m2, x) }) || !(ra < rb) by {
        if ra < rb { lemma_link(m2, ra, rb, x); }
    }
    assert forall|x: TypeId| true implies
        root_of(m2.insert(ra, rb), x) == (if root_of(m2, x) == ra { rb } else { root_of(m2, x) }) || !(rb < ra) by {
        if rb < ra { lemma_link(m2, rb, ra, x); }
    }
    if ra < rb { lemma_link(m2, ra, rb, a); }
    if rb < ra { lemma_link(m2, rb, ra, a); }
}
'''


def build(rep):
    src = rustsrc.Source(os.path.join(REPO, 'crates/core/src/types.rs'))
    u = Unit('C28_unionfind', rep)
    u.add(Raw(PRELUDE))
    u.add(Copy(src.find(r'\bstruct\s+UnionFind\b')))
    imp = src.find(r'\bimpl\s+UnionFind\b')
    u.add(Raw('impl UnionFind {\n    pub closed spec fn view(&self) -> Map<TypeId, TypeId> { self.parent@ }\n'))
    u.add(Fn(src.fn('find', imp), 'UnionFind::find', ret='r',
             requires=[Clause('wf', 'wf_map(old(self).view())', 'support')],
             ensures=[
                 Clause('keeps_wf', 'wf_map(final(self).view())', 'support'),
                 Clause('returns_class_representative', 'r == root_of(old(self).view(), id)'),
                 Clause('changes_no_class', 'forall|x: TypeId| root_of(final(self).view(), x) == root_of(old(self).view(), x)'),
             ],
             decreases='id',
             inserts=[('let root =', 'before', FIND_BEFORE_REC),
                      ('let root =', 'after', FIND_AFTER_REC),
                      ('} else {', 'after', FIND_ELSE)]))
    u.add(Fn(src.fn('union', imp), 'UnionFind::union',
             requires=[Clause('wf', 'wf_map(old(self).view())', 'support')],
             ensures=[
                 Clause('keeps_wf', 'wf_map(final(self).view())', 'support'),
                 Clause('merges_exactly_the_two_classes',
                        'forall|x: TypeId, y: TypeId| #![trigger root_of(final(self).view(), x), root_of(final(self).view(), y)] same(final(self).view(), x, y) <==> (same(old(self).view(), x, y) '
                        '|| ((same(old(self).view(), x, a) || same(old(self).view(), x, b)) && (same(old(self).view(), y, a) || same(old(self).view(), y, b))))'),
                 Clause('smaller_id_represents_merged_class', '''forall|x: TypeId| {
                let ra = root_of(old(self).view(), a);
                let rb = root_of(old(self).view(), b);
                let rx = root_of(old(self).view(), x);
                let m = if ra <= rb { ra } else { rb };
                #[trigger] root_of(final(self).view(), x) == (if rx == ra || rx == rb { m } else { rx })
            }''', 'support'),
             ],
             at_start='let ghost m0 = self.parent@;',
             inserts=[('let rb =', 'after', UNION_AFTER_FINDS)]))
    u.add(Raw('}\n} // verus!\nfn main() {}'))
    return u


def gen_merge_crate(rep):
    """the two fact-merge loops at the end of Types::collect_equal_types, cut out as a block (from the `let mut merged` line to the end
    of the function) together with TypeInfo, its BitOrAssign and UnionFind, all verbatim, into a Kani crate"""
    import shutil
    src = rustsrc.Source(os.path.join(REPO, 'crates/core/src/types.rs'))
    ti = src.find(r'\bpub\s+struct\s+TypeInfo\b')
    bo = src.find(r'\bimpl\s+std::ops::BitOrAssign\s+for\s+TypeInfo\b')
    us = src.find(r'\bpub\s+struct\s+UnionFind\b')
    ui = src.find(r'\bimpl\s+UnionFind\b')
    fn = src.fn('collect_equal_types')
    body = src.text[fn.open:fn.close]
    anchor = 'let mut merged: HashMap<TypeId, TypeInfo> = HashMap::new();'
    if body.count(anchor) != 1:
        raise rustsrc.LostAnchor('crates/core/src/types.rs: the fact-merge block of collect_equal_types no longer starts with `%s`' % anchor)
    block = body[body.index(anchor):]

    def t(it):
        attrs = ''.join(l + '\n' for l in it.attrs.splitlines() if l.strip().startswith('#[derive'))
        return attrs + it.src[it.hdr:it.close + 1]
    tmpl = open(os.path.join(VERIF, 'kani/c28merge/lib.rs.in')).read()
    out = tmpl.replace('//@TYPEINFO@', t(ti) + '\n' + t(bo)).replace('//@UNIONFIND@', t(us) + '\n' + t(ui)).replace('//@MERGE_BLOCK@', block)
    d = os.path.join(BUILD, 'kani', 'c28merge')
    os.makedirs(os.path.join(d, 'src'), exist_ok=True)
    open(os.path.join(d, 'src/lib.rs'), 'w').write(out)
    shutil.copy(os.path.join(VERIF, 'kani/c28merge/Cargo.toml'), os.path.join(d, 'Cargo.toml'))
    import hashlib
    rep.functions.append('crates/core/src/types.rs:%d fn `collect_equal_types`: the fact-merge block (%d lines from `let mut merged`, sha256/16=%s), '
                         'verbatim, on a shim `Types` with the two fields it uses' % (fn.line, block.count('\n'), hashlib.sha256(block.encode()).hexdigest()[:16]))
    rep.rewrites.append({'rule': 'block extraction: the statements of collect_equal_types from `let mut merged ...` to the end of the function are copied '
                                 'unchanged into `Types::merge_block(&mut self)`; dropped: the structural-equality search loop above it, the other fields of Types; '
                                 'std HashMap is replaced by a four-slot finite-map model (TRUSTED) defined in kani/c28merge/lib.rs.in; TypeId := usize'})
    return d


def run(rep, tier):
    rep.assume('rule 3: TypeId is replaced by usize (id_arena::Id compares by index inside one arena; the arena id is dropped)',
               'the derived Default for UnionFind yields an empty parent map (which satisfies wf)',
               'std HashMap behaves as vstd specifies (get/insert); Option::<&T>::copied = map deref (assume_specification)',
               'NOT covered: is_structurally_equal/types_equal (the relation itself), type_id_info content flags and the two '
               'inline merge loops of collect_equal_types need a wit_parser::Resolve (outside Verus; Kani did not finish) — only their '
               'ingredients find/union/|= are under contract')
    rep.notes.append('C28 is claimed partially: a change to how the equality relation is closed, represented or merged is detected; a change to the structural-equality relation is not.')
    verus.canary(rep)
    try:
        u = build(rep)
    except rustsrc.LostAnchor as e:
        verus.unspliceable(rep, 'C28', 'UnionFind::union.merges_exactly_the_two_classes', 'UnionFind::{find,union} (crates/core/src/types.rs)', e)
        return
    obs = u.run(tier)
    for o in obs:
        rep.add(o)
    native.search_on_failure(rep, 'C28', obs)
    verus.settle_lost_anchors(u, obs, rep)
    # bounded stand-in for the merge loops (not counted as proved)
    try:
        d = gen_merge_crate(rep)
    except rustsrc.LostAnchor as e:
        rep.undecided('LostAnchor: %s' % e)
        return
    hs = [Harness('c28_merge_block_shares_union_of_facts', 'collect_equal_types.merge_block_shares_union_of_facts',
                  'Types::collect_equal_types, fact-merge block (crates/core/src/types.rs)',
                  bounded='three types, every well-formed union-find shape over them (incl. the uncompressed depth-2 chain), all 2^24 fact combinations; HashMap replaced by a finite-map model')]
    kani.run_harnesses(rep, d, hs, None, 'kani-c28', timeout_each=1200, harness_file=os.path.join(d, 'src/lib.rs'),
                       playback_features='values-only', guard=False)
