"""C04 unit B helper: build the emit probe (verbatim-extracted Bitcast emitters of the seven backends) and run it."""
import json, os, shutil
from vlib import rustsrc
from vlib.common import REPO, VERIF, BUILD, Undecided, offline_env, run

EMITTERS = [
    # key, file, header regex, rename
    ('rust', 'crates/rust/src/lib.rs', [(r'\bfn\s+perform_cast\b', 'fn perform_cast'), (r'\bfn\s+wasm_type\b', 'fn wasm_type')]),
    ('c.method', 'crates/c/src/lib.rs', [(r'\bfn\s+perform_cast\b', 'fn perform_cast')]),
    ('c', 'crates/c/src/lib.rs', [(r'\bpub\s+fn\s+wasm_type\b', None)]),
    ('cpp.method', 'crates/cpp/src/lib.rs', [(r'\bfn\s+perform_cast\b', 'fn perform_cast')]),
    ('csharp', None, [('crates/csharp/src/function.rs', r'\bfn\s+perform_cast\b', 'fn perform_cast'),
                      ('crates/csharp/src/world_generator.rs', r'\bpub\s+fn\s+wasm_type\b', None)]),
    ('d', 'crates/d/src/lib.rs', [(r'\bfn\s+perform_cast\b', 'fn perform_cast'), (r'\bpub\s+fn\s+wasm_type\b', None)]),
    ('moonbit', 'crates/moonbit/src/lib.rs', [(r'\bfn\s+perform_cast\b', 'fn perform_cast'), (r'\bfn\s+wasm_type\b', 'fn wasm_type')]),
    ('go', 'crates/go/src/lib.rs', [(r'(?m)^fn\s+cast\b', 'fn cast'), (r'\bfn\s+wasm_type\b', 'fn wasm_type')]),
]


def build(rep):
    t = open(os.path.join(VERIF, 'kani/c04emit/main.rs.in')).read()
    for key, path, items in EMITTERS:
        texts = []
        for it in items:
            if len(it) == 3:
                p, hdr, ren = it
            else:
                p, (hdr, ren) = path, it
            src = rustsrc.Source(os.path.join(REPO, p))
            item = src.find(hdr)
            text = item.src[item.hdr:item.close + 1]
            if ren:
                text = text.replace(ren, 'pub ' + ren, 1)
            texts.append(text)
            rep.functions.append('%s:%d item `%s` sha256/16=%s (verbatim copy, compiled and RUN to obtain the emitted text)' % (
                p, item.line, item.header.strip().split('\n')[0][:70], item.sha()))
        marker = '//@%s@' % key
        if marker not in t:
            raise Undecided('probe template lost marker ' + marker)
        t = t.replace(marker, '\n'.join(texts))
    d = os.path.join(BUILD, 'c04emit')
    os.makedirs(os.path.join(d, 'src'), exist_ok=True)
    open(os.path.join(d, 'src/main.rs'), 'w').write(t)
    open(os.path.join(d, 'Cargo.toml'), 'w').write(
        open(os.path.join(VERIF, 'kani/c04emit/Cargo.toml.in')).read().replace('@REPO@', REPO))
    shutil.copy(os.path.join(REPO, 'Cargo.lock'), os.path.join(d, 'Cargo.lock'))
    env = offline_env({'CARGO_TARGET_DIR': os.path.join(BUILD, 'native-target')})
    exe = os.path.join(BUILD, 'native-target/debug/c04-emit')
    if os.path.exists(exe):
        os.remove(exe)
    rc, out, err, secs, to = run(['cargo', 'build', '--offline', '-q'], cwd=d, env=env, timeout=1800)
    if rc != 0:
        raise Undecided('emit probe does not build against /repo (an emitter changed shape): ' + err[-1500:])
    return os.path.join(BUILD, 'native-target/debug/c04-emit')


def emit(exe, pairs):
    """pairs: [(from,to)] names; returns (types {ty:{backend:str}}, casts {(from,to):{backend:str,'bitcast':..}})"""
    rc, out, err, secs, to = run([exe] + ['%s:%s' % p for p in pairs], timeout=120)
    if rc != 0:
        raise Undecided('emit probe failed (a requested pair panicked in cast() or an emitter): ' + err[-800:])
    types, casts = {}, {}
    for line in out.splitlines():
        j = json.loads(line)
        if j['kind'] == 'type':
            types[j['ty']] = j
        else:
            casts[(j['from'], j['to'])] = j
    return types, casts
