"""shared by the guest-runtime properties C18–C24"""
CRATE = 'crates/guest-rust'
FEATURES = 'async,std'
FEATURES_ITW = 'async,std,inter-task-wakeup'
TARGET = 'kani-guest'
HOST_ASSUMPTIONS = [
    'the mock host / mock exported task in /verif/harness/host.rs describe what the canonical ABI permits (assumption, hand-written)',
    'the canonical built-ins are replaced by kani::stub on the foreign declarations produced by the cfg-guarded extern_wasm! hook',
    'single-threaded execution (wasm components have no threads here); Waker/Arc/BTreeMap/allocator behave as documented (Kani models)',
    'x86-64 semantics of the verified functions carry over to wasm32 (pointer width differs)',
]
