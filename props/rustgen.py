"""Run the REAL Rust generator (the wit-bindgen CLI built from the tree under test) on a probe world and mount the
generated file in a Kani harness crate.  Shared by C14 (scalars), C07 (resources), C24 (cabi_dealloc)."""
import os, shutil
from vlib.common import REPO, VERIF, BUILD, Undecided, offline_env, run
from vlib.kani import target_lock


def build_cli(rep):
    env = offline_env({'CARGO_TARGET_DIR': os.path.join(BUILD, 'cli-target')})
    cmd = ['cargo', 'build', '--offline', '--no-default-features', '--features', 'rust,c', '--bin', 'wit-bindgen']   # one CLI for the Rust and the C probes
    rep.checker_cmds.append('(cd %s && CARGO_TARGET_DIR=%s %s)' % (REPO, env['CARGO_TARGET_DIR'], ' '.join(cmd)))
    exe = os.path.join(BUILD, 'cli-target/debug/wit-bindgen')
    if os.path.exists(exe):
        os.remove(exe)     # cargo re-links it; a stale binary from another tree must never be reused
    with target_lock('cli-target'):
        rc, out, err, secs, to = run(cmd, cwd=REPO, env=env, timeout=3600)
    if rc != 0:
        raise Undecided('the wit-bindgen CLI does not build from %s: %s' % (REPO, err[-1200:]))
    return os.path.join(BUILD, 'cli-target/debug/wit-bindgen')


def sanitize(module, name):
    import re
    return re.sub(r'[^A-Za-z0-9]', '_', module) + '__' + re.sub(r'[^A-Za-z0-9]', '_', name)


def mock_imports(rep, text, prefix='crate::mockhost'):
    """Rule R1 (the only edit made to generated text, and only when a harness needs to observe import calls): the
    generator emits, next to each wasm import declaration, a native stand-in
        #[cfg(not(target_arch = "wasm32"))] unsafe extern "C" fn F(_: T, ..) -> R { unreachable!() }
    whose body is replaced by a call to `crate::mockhost::<module>__<link_name>(a0, ..)` (names sanitised), a function
    the harness defines.  Nothing else in the file is touched."""
    import re
    pat = re.compile(r'#\[link\(wasm_import_module = "([^"]*)"\)\]\s*unsafe extern "C" \{\s*#\[link_name = "([^"]*)"\]\s*fn (\w+)\(([^)]*)\)\s*(->\s*[^;]+)?;\s*\}\s*'
                     r'#\[cfg\(not\(target_arch = "wasm32"\)\)\]\s*unsafe extern "C" fn (\w+)\(([^)]*)\)\s*(->\s*[^{]+)?\{ unreachable!\(\) \}')
    n = [0]
    names = []

    def sub(m):
        module, link, f1, _a1, _r1, f2, args, ret = m.groups()
        if f1 != f2:
            return m.group(0)
        tys = [a.split(':', 1)[1].strip() for a in args.split(',') if a.strip()]
        params = ', '.join('a%d: %s' % (i, t) for i, t in enumerate(tys))
        call = '%s::%s(%s)' % (prefix, sanitize(module, link), ', '.join('a%d' % i for i in range(len(tys))))
        n[0] += 1
        names.append('%s / %s' % (module, link))
        head = m.group(0)[:m.group(0).index('#[cfg(not(target_arch')]
        return head + '#[cfg(not(target_arch = "wasm32"))]\n unsafe extern "C" fn %s(%s) %s{ unsafe { %s } }' % (f2, params, ret or '', call)
    out = pat.sub(sub, text)
    left = len(re.findall(r'\{ unreachable!\(\) \}', out))
    rep.rewrites.append({'rule': 'R1: native import stand-ins `{ unreachable!() }` in the generated file replaced by calls to the harness mock host',
                         'count': n[0], 'imports': names, 'stand_ins_left_untouched': left})
    if n[0] == 0:
        raise Undecided('rule R1 matched no import stand-in in the generated file (the generator changed the shape of its native fallback)')
    return out


def hoist_subtasks(rep, text):
    """Rule R2 (only for the async-import callback obligations of C08): the generator defines, INSIDE each async import function,
        #[derive(Copy, Clone)] struct ParamsLower(..); unsafe impl Send ..; use ..Subtask as _Subtask; struct _MySubtask<'a> {..}
        unsafe impl<'a> _Subtask for _MySubtask<'a> { abi_layout, results_offset, call_import, params_dealloc_lists,
                                                       params_dealloc_lists_and_own, params_lower, results_lift }
    Function-local items cannot be named by a harness.  The rule COPIES that block of items, verbatim, into a sibling module
    `pub mod verif_subtask_<fn> { use super::*; .. }` appended right after the function, with `pub` added to the two struct
    declarations and their fields so the harness can construct and read them.  The function itself is left as generated; nothing
    inside the copied `impl` is changed."""
    import re
    out, pos, names = [], 0, []
    for m in re.finditer(r'pub async fn (\w+)\(', text):
        name = m.group(1)
        i = text.find('#[derive(Copy, Clone)]', m.end())
        nxt = re.search(r'pub (async )?fn \w+\(', text[m.end():])
        limit = m.end() + nxt.start() if nxt else len(text)
        if i < 0 or i > limit:
            continue
        j = text.find('_MySubtask { _unused: core::marker::PhantomData }.call(', i)
        if j < 0 or j > limit:
            continue
        block = text[i:j]
        if 'unsafe impl<\'a> _Subtask for _MySubtask<\'a>' not in block:
            continue
        # end of the enclosing function: brace matching from the function's opening brace
        k = text.index('{', m.end())
        depth, e = 0, k
        while True:
            depth += {'{': 1, '}': -1}.get(text[e], 0)
            e += 1
            if depth == 0:
                break
        pubbed = re.sub(r'struct ParamsLower\(([^)]*)\);', lambda mm: 'pub struct ParamsLower(' + ''.join(
            'pub ' + f.strip() + ', ' for f in mm.group(1).split(',') if f.strip()) + ');', block, count=1)
        pubbed = pubbed.replace("struct _MySubtask<'a> { _unused:", "pub struct _MySubtask<'a> { pub _unused:", 1)
        out.append(text[pos:e])
        out.append('\n#[allow(unused, non_snake_case, clippy::all)]\npub mod verif_subtask_%s {\n use super::*;\n%s\n}\n' % (name, pubbed))
        pos = e
        names.append(name)
    out.append(text[pos:])
    rep.rewrites.append({'rule': 'R2: the function-local Subtask implementation of each async import is copied verbatim into a sibling module '
                                 'verif_subtask_<fn> (struct declarations and fields made pub); the import function itself is left as generated',
                         'count': len(names), 'functions': names})
    if not names:
        raise Undecided('rule R2 found no function-local Subtask implementation in the generated file (the generator changed the shape of its async import glue)')
    return ''.join(out)


def generate(rep, name, extra_args=(), mock=False, mock_prefix='crate::mockhost', hoist=False):
    """kani/<name>/{probe.wit, lib.rs, Cargo.toml.in} -> .build/<name>/ with src/probe.rs generated; returns the crate dir"""
    cli = build_cli(rep)
    src = os.path.join(VERIF, 'kani', name)
    d = os.path.join(BUILD, name)
    os.makedirs(os.path.join(d, 'src'), exist_ok=True)
    for f in os.listdir(os.path.join(d, 'src')):
        os.remove(os.path.join(d, 'src', f))
    cmd = [cli, 'rust', os.path.join(src, 'probe.wit'), '--out-dir', os.path.join(d, 'src')] + list(extra_args)
    rc, out, err, secs, to = run(cmd, timeout=300)
    outs = [f for f in os.listdir(os.path.join(d, 'src')) if f.endswith('.rs')]
    if rc == 0 and len(outs) == 1 and outs[0] != 'probe.rs':
        os.rename(os.path.join(d, 'src', outs[0]), os.path.join(d, 'src/probe.rs'))
    if rc != 0 or not os.path.exists(os.path.join(d, 'src/probe.rs')):
        raise Undecided('the Rust generator failed on the probe world %s: %s' % (name, (err or out)[-800:]))
    shutil.copy(os.path.join(src, 'lib.rs'), os.path.join(d, 'src/lib.rs'))
    open(os.path.join(d, 'Cargo.toml'), 'w').write(open(os.path.join(src, 'Cargo.toml.in')).read().replace('@REPO@', REPO))
    shutil.copy(os.path.join(REPO, 'Cargo.lock'), os.path.join(d, 'Cargo.lock'))
    import hashlib
    gen = open(os.path.join(d, 'src/probe.rs')).read()
    text = gen
    if mock:
        text = mock_imports(rep, text, mock_prefix)
    if hoist:
        text = hoist_subtasks(rep, text)
    if text is not gen:
        open(os.path.join(d, 'src/probe.rs'), 'w').write(text)
    rep.functions.append('generated bindings %s/src/probe.rs (%d lines, sha256/16=%s): output of `%s`, the real Rust generator built from %s; '
                         'verified as generated, nothing hand-edited' % (d, gen.count('\n'), hashlib.sha256(gen.encode()).hexdigest()[:16],
                                                                         'wit-bindgen rust kani/%s/probe.wit %s' % (name, ' '.join(extra_args)), REPO))
    return d
