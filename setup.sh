#!/bin/sh
# Run once after a fresh restore, offline.  Everything is rebuilt from files on disk.
set -e
cd "$(dirname "$0")"
mkdir -p .build evidence replay
command -v verus >/dev/null
command -v cargo-kani >/dev/null || command -v kani >/dev/null
python3 -c "import sys; sys.path.insert(0,'.'); import vlib.common, vlib.verus, vlib.rustsrc"
echo setup ok
