#!/bin/bash
# confirm_seed.sh <ID> [dir]: in the sub-agent's scratch worktree, confirm (1) the patch applies to a clean HEAD,
# (2) the existing test suite passes with it, (3) the demonstration fails with it and passes without it.
ID=$1; D=${2:-/tmp/seed/$ID}; cd $D || exit 2
L=$D/SEED/confirm.log; : > $L
git apply -R SEED/patch.diff 2>>$L || { git checkout -- . ; }
git status --short | grep -v SEED >> $L
git apply --check SEED/patch.diff >>$L 2>&1 && echo "patch applies to clean HEAD: yes" | tee -a $L || { echo "patch does not apply" | tee -a $L; exit 1; }
bash SEED/run_demo.sh >> $L 2>&1; r0=$?; echo "demo without patch: exit $r0" | tee -a $L
git checkout -- . ; git apply SEED/patch.diff
cargo test --workspace --no-fail-fast --offline > SEED/confirm_suite.log 2>&1; rs=$?
echo "suite with patch: exit $rs; $(grep -c '^test .* ok$' SEED/confirm_suite.log) ok, $(grep -c '^test .* FAILED$' SEED/confirm_suite.log) failed" | tee -a $L
bash SEED/run_demo.sh >> $L 2>&1; r1=$?; echo "demo with patch: exit $r1" | tee -a $L
git status --short | grep -v SEED | tee -a $L
[ $r0 -eq 0 ] && [ $r1 -ne 0 ] && [ $rs -eq 0 ] && echo "CONFIRMED $ID" | tee -a $L || echo "NOT CONFIRMED $ID" | tee -a $L
