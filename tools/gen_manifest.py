#!/usr/bin/env python3
"""Writes /verif/MANIFEST.json from the tables below and validates it against the schema."""
import json, os, sys
HERE = os.path.dirname(os.path.dirname(os.path.abspath(__file__)))

CHECKS = {
 'C26': dict(
   engine='verus', category='proof', design_ref='DESIGN.md §3 C26',
   technique='contract-based deductive verification (Verus): ensures clauses spliced onto Ns::insert / Ns::tmp extracted verbatim from /repo each run',
   text='Unbounded deductive proof: Ns::insert and Ns::tmp are copied verbatim out of crates/core/src/ns.rs on every run, their contracts (conflict reported iff defined; a fresh name was not previously defined and becomes defined, nothing else changes) are spliced in and Verus discharges every obligation for all name sets of any size. The induction over call sequences follows from the two contracts because every name handed out is inserted.',
   note='Trusted: Verus/z3; vstd HashSet specification; String<->Seq<char> bijection and String hash-key-model axioms; format!() replaced by an arbitrary string; counter overflow assumed away; termination of tmp not claimed. A failed Verus obligation carries no counterexample: a native bounded search on the real code is attempted for a replay, otherwise the VIOLATION line ends with no-failing-input-found.'),
}

NOT_APPLICABLE = {
 'C01': 'shared ABI generator is generic over Bindgen/Resolve with closures and iterator adapters (outside the Verus subset); Kani did not finish one tuple<u8,u32> through the real generator in 15 min (DESIGN §5)',
 'C02': 'same functions as C01: no contract within reach of Verus/Kani can express the calling convention over all signatures (DESIGN §5)',
 'C03': 'same functions as C01 (deallocate / deallocate_indirect over Resolve): outside both verifiers (DESIGN §5)',
 'C05': 'statement about a compiled wasm component judged by an independent host; no contract on a string-returning generator can express it (DESIGN §5)',
 'C06': 'as C05 (heap behaviour of compiled bindings under a host) (DESIGN §5)',
 'C08': 'as C05 (async vs sync bindings compared under a host) (DESIGN §5)',
 'C09': 'decided by rustc + the component encoder, not by a postcondition (DESIGN §5)',
 'C10': 'as C05 for the C backend (DESIGN §5)',
 'C11': 'as C06 for the C backend (DESIGN §5)',
 'C12': 'decided by clang + the component encoder (DESIGN §5)',
 'C13': 'whole-output property of seven string emitters against wit-component; no function boundary carries it (DESIGN §5)',
 'C15': 'two-run hyperproperty over hash seeds; contracts are single-run (DESIGN §5)',
 'C16': 'panic-freedom of whole generators over Resolve: same obstacle as C01 (DESIGN §5)',
 'C25': 'str::lines/trim/starts_with processing: Verus has no str reasoning; Kani did not finish Source::push_str on 2 symbolic bytes in 280 s (DESIGN §5)',
 'C27': 'String::replace / to_snake_case / semver Display: Kani did not finish a 3-byte replace chain in 7 min (6.7 GB); no Verus str support (DESIGN §5)',
 'C29': 'goes through pulldown-cmark parser and HTML writer (DESIGN §5)',
 'C30': 'whole-output property over HashMap entry API and string splitting; the alias-freshness core is Ns::tmp, proved under C26 (DESIGN §5)',
 'C31': 'decided by a C++ compiler (DESIGN §5)',
 'C32': 'proc-macro + file system (DESIGN §5)',
 'C33': 'logic inline in main around std::fs; no function to put a contract on (DESIGN §5)',
 'C34': 'same str machinery as C25 (DESIGN §5)',
}
# planned but not built yet: listed as not_applicable until their check exists
PENDING = {k: 'check not built yet in this session (planned: DESIGN §7)' for k in
           ['C04','C07','C14','C17','C18','C19','C20','C21','C22','C23','C24','C28']}

def main():
    props = [json.loads(l) for l in open(os.path.join(HERE, 'properties.jsonl'))]
    ids = [p['id'] for p in props]
    checks = []
    for pid in ids:
        if pid in CHECKS:
            c = CHECKS[pid]
            checks.append({
                'property_id': pid,
                'quick_cmd': './check %s --tier quick' % pid,
                'thorough_cmd': './check %s --tier thorough' % pid,
                'evidence_file': 'evidence/%s.json' % pid,
                'replay_cmd_template': './check %s --replay {path}' % pid,
                'engine': c['engine'],
                'level_claimed': {'category': c['category'], 'text': c['text'], 'design_ref': c['design_ref']},
                'level_note': c['note'],
                'technique': c['technique'],
            })
    na = []
    for pid in ids:
        if pid in CHECKS:
            continue
        reason = NOT_APPLICABLE.get(pid) or PENDING.get(pid)
        assert reason, pid
        na.append({'property_id': pid, 'reason': reason})
    hooks = json.load(open(os.path.join(HERE, 'tools', 'hooks.json')))
    man = {
        'version': 1,
        'setup_cmd': './setup.sh',
        'hooks': hooks,
        'engines': [
            {'name': 'verus', 'path': 'vlib/verus.py', 'serves_properties': [p for p in CHECKS if CHECKS[p]['engine'] == 'verus'],
             'kind_free_text': 'Verus 0.2026.09.13 on functions extracted verbatim from /repo each run with contracts spliced at anchors'},
            {'name': 'kani', 'path': 'vlib/kani.py', 'serves_properties': [p for p in CHECKS if CHECKS[p]['engine'] == 'kani'],
             'kind_free_text': 'Kani 0.68 / CBMC 6.11 contract harnesses mounted in-crate under --cfg bytecodealliance_wit_bindgen_verif'},
            {'name': 'exprvc', 'path': 'vlib/exprvc.py', 'serves_properties': [p for p in CHECKS if CHECKS[p]['engine'] == 'exprvc'],
             'kind_free_text': 'verification conditions over emitted conversion expressions (Kani for Rust text, CBMC for C text, z3 for the others)'},
        ],
        'checks': checks,
        'not_applicable': na,
        'notes': 'Single entry point ./check <ID> --tier quick|thorough. Exit 0 held, 1 VIOLATION, 2 undecided (lost anchor, unsupported construct, timeout, support-only proof failure without a failing input). See DESIGN.md.',
    }
    with open(os.path.join(HERE, 'MANIFEST.json'), 'w') as f:
        json.dump(man, f, indent=1)
        f.write('\n')
    try:
        import jsonschema
        jsonschema.validate(man, json.load(open('/root/.vp/MANIFEST.schema.json')))
        print('MANIFEST.json valid; %d checks, %d not_applicable' % (len(checks), len(na)))
    except ImportError:
        print('jsonschema not importable here; wrote MANIFEST.json unvalidated')

if __name__ == '__main__':
    main()
