#!/usr/bin/env python3
"""Writes /verif/MANIFEST.json from the tables below and validates it against the schema."""
import json, os, sys
HERE = os.path.dirname(os.path.dirname(os.path.abspath(__file__)))

CHECKS = {
 'C26': dict(
   engine='verus', category='proof', design_ref='DESIGN.md §3 C26',
   technique='contract-based deductive verification (Verus): ensures clauses spliced onto Ns::insert / Ns::tmp extracted verbatim from /repo each run',
   text='Unbounded deductive proof: Ns::insert and Ns::tmp are copied verbatim out of crates/core/src/ns.rs on every run, their contracts (conflict reported iff defined; a fresh name was not previously defined and becomes defined, nothing else changes) are spliced in and Verus discharges every obligation for all name sets of any size. The induction over call sequences follows from the two contracts because every name handed out is inserted.',
   note='Trusted: Verus/z3; vstd HashSet specification; String<->Seq<char> bijection and String hash-key-model axioms; format!() replaced by an arbitrary string; counter overflow assumed away; termination of tmp not claimed. A failed Verus obligation carries no counterexample: a native bounded search on the real code is attempted for a replay, otherwise the VIOLATION line ends with no-failing-input-found.'),

 'C28': dict(
   engine='verus', category='proof', design_ref='DESIGN.md §3 C28',
   technique='contract-based deductive verification (Verus): wf/ensures/decreases and lemma calls spliced onto UnionFind::find / UnionFind::union extracted verbatim each run',
   text='PARTIAL: the equivalence-class machinery only. Unbounded proof that find returns the class representative and changes no class (path compression), and that union merges exactly the two classes and nothing else, over an abstract root_of view with representation invariant parent[k] < k (which also gives termination of the recursive find).',
   note='Not covered (stated in evidence): the structural-equality relation itself (is_structurally_equal/types_equal), type_id_info content flags need a wit_parser::Resolve, out of reach of both verifiers. The two inline fact-merge loops of collect_equal_types are cut out as a block and checked by Kani as a BOUNDED stand-in (three types, every union-find shape over them, all fact combinations; std HashMap replaced by a trusted finite-map model), not counted as proved. Trusted: vstd HashMap spec, Option::copied spec, TypeId := usize.'),
 'C17': dict(
   engine='verus', category='proof', design_ref='DESIGN.md §3 C17',
   technique='contract-based deductive verification (Verus): first-match specification spliced onto AsyncFilterSet::is_async / ensure_all_used extracted verbatim each run (loop invariants at the desugared for-enumerate loop)',
   text='Unbounded proof, for directive lists of any length, that is_async answers with the first directive matching name and direction (else the WIT default), records exactly that directive as used and leaves the list unchanged; ensure_all_used errs iff some non-`all` directive never decided a function.',
   note='Not covered: Async::parse/Display (str prefix matching) and that the generators act on the answer. Trusted: rule 5a loop desugaring, wit-parser shims, the qualified-name format! is uninterpreted. A native exhaustive small-scope search through the public API supplies replayable inputs when an obligation fails.'),
 'C18': dict(
   engine='kani', category='proof', design_ref='DESIGN.md §2 C18',
   technique='contract harnesses on the real WaitableOperation/CabiTask (Kani/CBMC, loop-free, symbolic host answers), inductive per operation over the abstract state space',
   text='Each public operation of WaitableOperation (poll, re-poll, delivery, cancel, drop, cross-task move) is checked from every reachable abstract state against a ledger-keeping mock task with fully symbolic start/delivered/cancel codes and both task ABI versions: registered exactly once while pending, removed from every task before cancel/drop, completion processed exactly once, no registration survives the value; after every step a representation invariant holds (an entry in a task\'s ledger points at this operation\'s completion slot, the operation\'s own record names that task as registered, and the waitable is a member of exactly that task\'s set).',
   note='Trusted: mock host/task (what the ABI permits), abstract WaitableOp (concrete ops are C19-C21), Kani/CBMC, x86-64 vs wasm32. SharedTaskState::waitable_register/unregister are covered under C22.'),
 'C19': dict(
   engine='kani', category='other', design_ref='DESIGN.md §2 C19',
   technique='contract harnesses on the real AbiBuffer / RawStreamWriter / RawStreamReader operations (Kani/CBMC), all ABI-permitted codes enumerated per buffer length',
   text='BOUNDED contract checking, not a proof: every obligation but one fixes the buffer length (0..=3 items, spare capacity <= 2) and is complete only for that length, so the level is "other" (bounded stand-in), as the brief requires. Per-operation contracts: AbiBuffer lowers each value once in order, advance(k) releases exactly the k transferred items once, into_vec/drop recover exactly the untransferred suffix once; a stream write/read reports exactly the host count for every permitted code whether it arrives at once, through the task, or from cancel; done-flag behaviour after peer drop; handles dropped once. Generated side (one payload probe world, Kani on the real Rust generator\'s output with a heap ledger): the StreamVtable<T> hooks for stream<string>, stream<record { u32, string }>, stream<u8>, stream<bool> - lower writes the canonical element and keeps exactly the value\'s buffer allocated, a payload whose lowering allocates has a dealloc_lists hook and that hook frees exactly those buffers once, lift hands an untransferred value back from its own buffer, canonical payloads have no hooks.',
   note='BOUNDED in buffer length (<=3 items / spare capacity <=2) — these obligations are listed as bounded, not proved; only take_handle is unbounded. write_all/collect loops and the futures::Stream adapter are not covered. Trusted: mock StreamOps (in-crate obligations), mock host; the payload obligations fix the string length per obligation (0, 1, 2).'),
 'C24': dict(
   engine='kani', category='proof', design_ref='DESIGN.md §2 C24',
   technique='contract harnesses (Kani/CBMC) on cabi_realloc extracted verbatim each run, allocator replaced by GlobalAlloc-contract stubs with a ghost ledger; real Cleanup driven in place',
   text='PARTIAL. Proved for all four usize arguments (loop-free, unbounded): cabi_realloc returns a non-null pointer aligned as requested, returns the alignment value itself for a zero-sized fresh allocation, calls the allocator only inside the GlobalAlloc contract (never zero size, realloc only with the layout the block was allocated with) and aborts instead of returning null. BOUNDED stand-ins, not counted as proved: contents preserved up to the smaller size (blocks of 1..=8 bytes on Kani\'s allocator model); Cleanup::new is null with no guard exactly when the size is zero, its block is freed exactly once with the same layout, forget does not free, and a failed allocation of non-zero size aborts instead of returning null (layout size <= 6 because of the poison loop).',
   note='Per-request contract; a request sequence is a composition of calls each of which meets its precondition because the previous result met its postcondition. Assumed host precondition (the code states it as a debug_assert): a live block is never resized to zero. Also proved (all pointer/size/alignment values): the cabi_dealloc runtime item and the post-return functions, as the real Rust generator emits them for a string/list<u8> probe world, free nothing for a zero size and otherwise exactly the named block once with its own size and alignment. Not covered: the wit_bindgen_cabi_realloc.rs C-symbol forwarder. Trusted: the global allocator honours GlobalAlloc; 64-bit usize stands in for wasm32. The contract-form counterexample is not replayed natively (allocator stubs are not applied by concrete playback); the contents/Cleanup ones are.'),
 'C20': dict(
   engine='kani', category='proof', design_ref='DESIGN.md §2 C20',
   technique='contract harnesses on the real future write/read operations and typed wrappers (Kani/CBMC), complete enumeration of (operation, arrival, code)',
   text='Op tables for RawFutureWriter/RawFutureWrite/RawFutureReader/RawFutureRead over the complete finite code set and every way an answer arrives (immediate, delivered, cancel, drop in flight): value lowered once, lifted back or released exactly once, outcome mapping one-to-one, no drop-writable while a write is pending; a completion that was already delivered to the task when the operation is cancelled is the outcome (the host is not asked to cancel a finished write / read, the value is neither lost nor written twice). Typed FutureWriter/FutureWrite: default value handed to write_and_forget before any drop-writable in every drop/cancel path.',
   note='write_and_forget itself (self-waking Arc cycle) is replaced by a recording stub in the quick tier. Trusted: mock FutureOps/vtable, mock host.'),
 'C21': dict(
   engine='kani', category='proof', design_ref='DESIGN.md §2 C21',
   technique='contract harnesses on the real Subtask::call future (Kani/CBMC), complete enumeration of the subtask status language',
   text='All seven members of the status language (immediate RETURNED; STARTING/STARTED followed by events; drop at any non-terminal point with every permitted cancel answer) are run through the real SubtaskOps + WaitableOperation against a logging mock of the generated bindings: lists freed once iff started, owned params released iff cancelled before start, results lifted once from block+offset iff returned, handle dropped once, cancel only in flight and only after unregistering.',
   note='Leak of the params/results block is not observable (double free / use-after-free are, via CBMC memory checks). Generated Subtask impls are mocked. Cleanup poison loop unwound for a 4-byte block with unwinding assertions.'),
}

CHECKS['C04'] = dict(
   engine='exprvc', category='proof', design_ref='DESIGN.md §3 C04',
   technique='contract harnesses on the real abi::cast (Kani/CBMC, loop-free, all type pairs x all bit patterns x both pointer widths) + verification conditions over the text the real per-backend Bitcast emitters produce (emitters extracted verbatim and run each run; z3 bit-vector proof per (backend, slot pair))',
   text='Proved: (1) for every (payload type t, joined slot type j) a valid variant can produce (closure of the Canonical ABI join, proved inductively) the real cast(t,j)/cast(j,t) do not panic, are well typed step by step, the lowering keeps the payload bits (zero-extended/reinterpreted), the lifting is the low-bits wrap, and the round trip is the identity on every bit pattern at both pointer widths; (2) for each of the seven backends and each such pair, the text its real emitter produces for the real cast result lifts as the wrap of the joined slot and round-trips every payload bit pattern, under that language\'s (trusted) integer-conversion semantics.',
   note='Trusted: the spec-side tables (join, widths, meaning of a conversion), the per-language semantics tables of vlib/exprvc.py, wit-parser\'s own join/push_flat. The upper bits a lowering writes into a wider slot are not constrained (the spec\'s lifting discards them); what each backend writes there (zero / sign fill / uninitialised) is reported in the evidence. Pointer width 32 for all backends, 64 additionally for Rust. z3 counterexamples are evaluated under the same table, not replayed natively.')

CHECKS['C14'] = dict(
   engine='exprvc', category='proof', design_ref='DESIGN.md §3 C14',
   technique='verification conditions over the conversion text every backend emits for the 24 scalar instructions (templates extracted from the real emit() match arms each run; z3 bit-vector proof for all operand values), plus Kani contract harnesses on the bindings the real Rust generator produces for a probe world (full domain, loop-free)',
   text='Proved for all operand values, per (backend, instruction), 7 backends x 24 scalar instructions: the emitted expression, typed with the backend\'s representation of the WIT scalar and of the core value, computes the Canonical ABI mapping (lowering zero-/sign-extends by the WIT signedness; lifting takes the low bits of an arbitrary core value with the type\'s own signedness; 64-bit and float values bit-exact; char = scalar value; bool 0/1). For Rust additionally, on the real generator\'s output for a probe world: every generated export trampoline lifts every core value and lowers every result value canonically (12 scalar types, Kani, full domain).',
   note='Trusted: the per-language semantics tables (vlib/exprvc.py), the WIT-scalar -> target-type table (anchored in each backend\'s type printer), the meaning of the Rust runtime items char_lift/bool_lift/as_* in the z3 route (their generated text is what Kani verifies in the rustgen route). Template extraction reads only the scalar arms (shapes S1-S5, vlib/arms.py); an arm in another shape is undecided, not an alarm. Bool lifting is required on 0/1 only; char operands are restricted to Unicode scalar values. z3 counterexamples are evaluated under the same table; Kani counterexamples of the rustgen route carry concrete values.')
CHECKS['C23'] = dict(
   engine='kani', category='proof', design_ref='DESIGN.md §2 C23',
   technique='contract harnesses on the real inter-task wakeup operations and the executor steps around them (Kani/CBMC, in-crate, one operation per harness from every reachable abstract state, complete enumeration of sleep states), representation invariant checked after every operation',
   text='Per operation, from every reachable abstract state (no stream / stream idle / read pending; POLLING / WOKEN / SLEEPING): going to sleep starts exactly one wakeup read on a stream created at most once and joined to the task\'s own set; a wake writes exactly one item when the task is SLEEPING and nothing when POLLING or already WOKEN (repeats coalesced), any other state is rejected; the wakeup event is consumed by the runtime exactly for its own stream and the task is polled again; a pending read is cancelled exactly once, after leaving the waitable set, before the next poll and before the task is destroyed; the flag stream_reading always equals "the host has a pending read", the task is marked SLEEPING only while a read is pending, and a callback answering YIELD leaves it not sleeping (a wake then writes nothing).',
   note='The host delivering the stream event after the write is assumed (mock). Feature inter-task-wakeup. Under the model checker the task\'s waitable map is the two-slot finite map of hook 6328f56. Trusted: mock host, Kani/CBMC, x86-64 vs wasm32.')

CHECKS['C07'] = dict(
   engine='kani', category='proof', design_ref='DESIGN.md §9.6 C07',
   technique='contract harnesses (Kani/CBMC, loop-free, all handle values) on the bindings the real Rust generator produces for a resource probe world, against a ledger-keeping mock host attached through the generated native import stand-ins',
   text='PARTIAL (one probe world, see level_note). For every handle value: the generated Resource<T> item drops an owned handle exactly once with its Rust value and never uses or drops a handle that was given away; generated import glue transfers an owned argument exactly once without dropping it, never drops a borrowed argument or method receiver, and an owned result (function or constructor) is dropped exactly once when its value is dropped; generated export glue hands the user the owned handle (dropped exactly once with its value), transfers the handle of a newly created exported resource without dropping it, reaches the same Rust value through an owned handle and through a borrow, and destroys it exactly once in the destructor export, also after into_inner moved the value out (then the new owner destroys it, not the destructor); a list of one or two owned handles passed to an import transfers every handle and drops none (bounded by the list length). Nested and cross-direction cases: an owned handle inside a record parameter is transferred once and not dropped; option<own> / result<own, u32> results are dropped exactly once with their value (and nothing is created for none / err); a borrow inside a tuple is passed, not dropped; an own of the imported resource received by an export is dropped exactly once by whoever ends up owning it (also when the user keeps it beyond the call); a borrow of the imported resource lent to an export is released by the bindings exactly once and only after the user function returned; option<own> parameter of an export; a borrow of an exported resource reached through an alias in a second exported interface is typed as its representation and its trampolines perform no handle operation.',
   note='Proof for the generated code of kani/rustgen_res/probe.wit only (the generator is real and rebuilt each run; the world is fixed): not a statement about every world. Not covered: async, handles nested more than one level deep, future/stream/error-context handles, host resource tables. A lent borrow of an IMPORTED resource is released by the bindings at the end of the export call because the canonical ABI requires it of the callee; "never dropped by the guest" is read as never by the user, never early, never twice. Rule R1 (native import stand-ins call the mock host) is the only edit to generated text. 64-bit target: trampolines that take a borrow as core i32 are bypassed (pointer truncation).')

CHECKS['C22'] = dict(
   engine='kani', category='other', design_ref='DESIGN.md §9.7 C22',
   technique='contract harnesses on the real export executor (Kani/CBMC, in-crate): exactly one executor step (TaskState::callback, start_task, callback, drop, waitable_register/unregister) per harness from directly constructed pre-states, symbolic event codes',
   text='BOUNDED contract checking, not a proof (level "other"): at most two registered waitables, scripted Rust work, one step per harness over a sampled set of abstract states. Per step: EXIT exactly when no Rust work and no registered waitable remain; WAIT on the task\'s own waitable set while something is pending and not woken; YIELD when woken during polling (after polling the set and delivering what it reports); an event is delivered to its callback exactly once, after the waitable has left every set, with the host\'s code, and the work is polled again; cancellation exits without polling; the state slot is empty while a callback runs, holds the same state afterwards unless EXIT, and the task with its destructors is released exactly once on exit or cancellation with the task installed; CallbackCode encoding for all set ids; register/unregister keep the task map and the host set in step; a task handle taken and given back through the C-ABI vtable (clone / drop) is exactly one strong reference more and less, and the set is dropped once when everything is gone; block_on returns for a ready future, after one wait, and for a future that only yields without ever registering a waitable.',
   note='BOUNDED: <= 1 waitable, two-slot map model kept in a static under the model checker (BTreeMap trusted), one task per harness. block_on is covered for a ready future, for one wait and for a yield-only future (two loop iterations each; the last one exposed a panic in the unchanged code, repaired as fix: 1781768); a three-step history runs in the thorough tier. Not covered: spawned work (async-spawn), TaskCancelOnDrop, longer histories beyond the inductive reading of the single steps. Trusted: mock host.')

CHECKS['C05'] = dict(
   engine='kani', category='other', design_ref='DESIGN.md §9.9 C05/C06',
   technique='contract harnesses (Kani/CBMC) on the bindings the real Rust generator produces for a value probe world, the harness acting as the host at the core-ABI boundary with hand-written Canonical-ABI encodings (flat parameters, joined variant slots, return-area layout)',
   text='PARTIAL and BOUNDED (level "other"): two probe worlds, mostly the export direction (four import functions). Every generated export trampoline hands the user function exactly the value the host lowered and stores exactly the value the user returned at its canonical offsets: record (incl. one with every scalar kind: bool, char, s8, s16, s64, f32, f64), tuple, option (also nested), result (with both, only an ok, only an error payload type), flags (3 and 32 members), enum and the numeric cases of a variant with a joined 64-bit-or-pointer slot over their full domains; list<string> returned by an import; a variant { f32, u64, f64 } (f32 in a slot widened to i64) over every bit pattern, through an export and through an import; string, list<u8>, list<u32>, list<tuple>, the variant\'s string case, a record with string and list fields, result<string, u32>, list<string>, list<record { u64, string }> (element size with a byte part and a pointer part) and map<string, u32> (second probe world, generated with --map-type) for bounded lengths.',
   note='BOUNDED: list/string lengths 0..=2 (lists of strings / records: list length fixed per obligation at 0, 1 or 2, element strings <= 1 byte), ASCII only; one probe world; one import (the f32 variant), otherwise export direction; async, resources (C07) not driven. The host side is hand-written in the harness from CanonicalABI.md with the 64-bit target\'s pointer size (the generator emits size_of::<*const u8>() offsets, so wasm32 is the same text with P = 4). std UTF-8 validation is a trusted stub.')
CHECKS['C06'] = dict(
   engine='kani', category='other', design_ref='DESIGN.md §9.9 C05/C06',
   technique='contract harnesses (Kani/CBMC) on the same generated bindings with every heap block going through a ledger (contract stubs on alloc/dealloc/realloc and std\'s private *_nonnull variants)',
   text='PARTIAL and BOUNDED (level "other"): for string, list<u8>, list<u32>, list<tuple>, a variant with a string case, a record with a string and a list field, result<string, u32>, list<string>, list<record { u64, string }> and map<string, u32> parameters and results of two probe worlds, after the export trampoline, the user function and the generated post-return: no block was freed twice or with a size/alignment other than the one it was allocated with, the host-provided buffers were taken over exactly once, and nothing is left allocated; out-of-bounds accesses are excluded by CBMC\'s pointer checks.',
   note='BOUNDED: lengths as C05; maps use the harness\'s vector-of-pairs type through the generator\'s --map-type option (BTreeMap does not get through CBMC); an import with option<list<string>> and one with option<map<string, u32>> check that the lowering\'s scratch buffer is alive during the call and freed once. A read after free is NOT observable in this harness (a stub cannot call the function it replaces, so freed memory is never returned to the allocator model); double free, foreign-layout free and leaks are. Imports, async and resources are not driven.')

CHECKS['C02'] = dict(
   engine='kani', category='other', design_ref='DESIGN.md §9.11 C02',
   technique='contract harnesses (Kani/CBMC) on the call glue the real Rust generator produces for a calling-convention probe world, against a mock host reading/writing the canonical parameter record and return area; plus a comparison of each generated core declaration with the hand-written canonical core signature',
   text='PARTIAL and BOUNDED (level "other"): the shared call glue as instantiated by the Rust backend for one probe world, synchronous functions. 16 parameters are passed flat and 17 through one pointer to a record with field i at its canonical offset, as import and as export, for 17 x u32 and for 17 values of mixed sizes (u8, u64, u16, u32, u8, u64, 11 x u32: every field at the next multiple of its own alignment, record size 88, alignment 8); a scalar result is returned directly and a two-field result through a return pointer / return area at canonical offsets; exactly one core call (import) or one user call (export) is made; the caller-allocated parameter record of an export is freed exactly once with its own size and alignment; the generated core declarations (ten) have exactly the canonical core signatures.',
   note='BOUNDED/PARTIAL: one backend (Rust), one probe world, u32 parameters; async ABI variants and the other backends are not covered. Expected core signatures and the mock host are hand-written from CanonicalABI.md.')

CHECKS['C08'] = dict(
   engine='kani', category='other', design_ref='DESIGN.md §9.13 C08',
   technique='contract harnesses (Kani/CBMC) on the async bindings the real Rust generator produces for a probe world, mounted inside the guest runtime crate so that they run on the real executor/Subtask code with the canonical built-ins replaced by a mock host',
   text='PARTIAL and BOUNDED (level "other"): two probe worlds. (a) On the real runtime, scalar (u32) functions, calls that complete in their first step. An async export receives the value a sync binding would lift and reports its result through task.return exactly once, after the user\'s work finished, canonically lowered, with no cancellation signal, answering EXIT and releasing the task; an async import that returns at once makes exactly one core call with the canonically lowered parameter and lifts the result from the results area, with no handle left to drop, cancel or wait on. (b) The generated Subtask implementation of three async imports (flat string parameter, parameters in a block, list of records that own strings), called in the order the runtime uses: parameters are lowered canonically into buffers that stay allocated, the core call receives exactly those while they are still allocated, each of the two release callbacks frees exactly the lowered buffers once (and not the block), results are lifted from the result area and take the callee\'s buffer over, nothing is left allocated. WHEN the runtime calls which callback, for every host schedule, is C21.',
   note='Not covered: string/list payloads through the executor (the harnesses exist but exceed CBMC\'s memory; the generated callbacks are covered on their own, copied out of the import function by rule R2), pending calls (the runtime side is C21/C22), the cancellation signal of a dropped async export (function-local built-in, cannot be stubbed), owned handles. The generator is run with --runtime-path crate::rt and its output mounted in crates/guest-rust under a second cfg set only by this check.')

CHECKS['C10'] = dict(
   engine='cbmc', category='other', design_ref='DESIGN.md §9.14 C10/C11',
   technique='CBMC (wasm32 data model) on the bindings the real C generator produces for a value probe world, the harness acting as the host at the core-ABI boundary with hand-written Canonical-ABI encodings',
   text='PARTIAL and BOUNDED (level "other"): for ONE probe world, export direction plus one import. Every generated C export wrapper hands the user function exactly the value the host lowered and stores exactly the value the user returned at its canonical offsets (4-byte pointers): record (incl. one with every scalar kind), tuple, option (also nested), result (with both, only an ok, only an error payload type), flags (3 and 32 members), enum and the numeric cases of a variant with a joined slot over their full domains, list<string> returned by an import, a string and a list<u32> passed to an import with arbitrary pointer and length (every length, not a bounded one), each under three generator configurations (default, --no-sig-flattening, --string-encoding utf16); a variant { f32, u64, f64 } over every bit pattern through an export and through an import (the host lifting the joined i64 slot as the canonical ABI does); string, list<u32>, list<tuple<u8,u32,u8>>, the variant\'s string case, a record with string and list fields, result<string, u32> and list<string> for bounded lengths.',
   note='BOUNDED: list/string lengths 0..=2 (list<string>: <= 1 element of <= 1 byte); one probe world; async and resource values not driven. Minimal hand-written ILP32 libc headers (no 32-bit headers in the sandbox); host side hand-written from CanonicalABI.md.')
CHECKS['C11'] = dict(
   engine='cbmc', category='other', design_ref='DESIGN.md §9.14 C10/C11',
   technique='CBMC (wasm32 data model, --pointer-check --bounds-check --memory-leak-check) on the generated C of two probe worlds (values; resources, generated with and without --autodrop-borrows): the allocator model decides leaks, double frees, use after free and out-of-bounds accesses, the harness as host records every resource.drop / new / rep; plus a comparison of every __export_name__ and every __import_module__/__import_name__ pair with an independent spec of the component model\'s core names',
   text='PARTIAL and BOUNDED (level "other"): for string, list<u32>, list<tuple>, a variant with a string case, list<string>, a record with a string and a list field and result<string, u32> parameters and results of one probe world, under three generator configurations (default, --no-sig-flattening, --string-encoding utf16): after the export wrapper, the user function (which frees its arguments with the generated *_free helpers) and the generated post-return, nothing is leaked, nothing is freed twice, nothing is used after free or accessed out of bounds; post-return of the numeric variant cases frees nothing; the arguments of an import are passed without a copy, left untouched and remain the caller\'s to free; a list<string> returned by an import belongs to the caller and the generated free helper releases all of it. Resources (second probe world, default options and --autodrop-borrows yes): a borrow of an imported resource lent to an export - plain, in an option, in a variant whose other case is an integer in the same flat slot - is dropped by the bindings exactly once when autodrop is on and never when it is off, and no other handle is touched; own arguments/results and borrows of exported resources release nothing; each exported resource\'s destructor export calls that resource\'s user destructor exactly once and is exported under `<interface>#[dtor]<WIT name>` (single- and multi-word names); drop_own / drop_borrow / new / rep helpers make exactly one built-in call; every generated *_free helper of an interface that is both imported and exported releases all owned memory on both sides.',
   note='BOUNDED: lengths as C10; handles over all non-zero i32. Two genuine defects were found with this check and repaired (fix: 5f82076 [dtor] export name, fix: c7cd17d missing export-side free helpers; known-findings.txt). Not covered: async, resources inside lists, free helpers of types outside the probes; that the component encoder wires a recognised [dtor] export is wit-component\'s contract (read, not verified).')

NOT_APPLICABLE = {
 'C01': 'shared ABI generator is generic over Bindgen/Resolve with closures and iterator adapters (outside the Verus subset); Kani did not finish one tuple<u8,u32> through the real generator in 15 min (DESIGN §5)',
 'C03': 'same functions as C01 (deallocate / deallocate_indirect over Resolve): outside both verifiers (DESIGN §5)',
 'C09': 'decided by rustc + the component encoder, not by a postcondition (DESIGN §5); one C09 defect met while building the map probe was repaired all the same (fix: e6f5a47, DESIGN §9.17) but no check here decides the property',
 'C12': 'decided by clang + the component encoder (DESIGN §5)',
 'C13': 'whole-output property of seven string emitters against wit-component; no function boundary carries it (DESIGN §5)',
 'C15': 'two-run hyperproperty over hash seeds; contracts are single-run (DESIGN §5)',
 'C16': 'panic-freedom of whole generators over Resolve: same obstacle as C01 (DESIGN §5)',
 'C25': 'str::lines/trim/starts_with processing: Verus has no str reasoning; Kani did not finish Source::push_str on 2 symbolic bytes in 280 s (DESIGN §5)',
 'C27': 'String::replace / to_snake_case / semver Display: Kani did not finish a 3-byte replace chain in 7 min (6.7 GB); no Verus str support (DESIGN §5)',
 'C29': 'goes through pulldown-cmark parser and HTML writer (DESIGN §5)',
 'C30': 'whole-output property over HashMap entry API and string splitting; the alias-freshness core is Ns::tmp, proved under C26 (DESIGN §5)',
 'C31': 'decided by a C++ compiler (DESIGN §5)',
 'C32': 'proc-macro + file system (DESIGN §5)',
 'C33': 'logic inline in main around std::fs; no function to put a contract on (DESIGN §5)',
 'C34': 'same str machinery as C25 (DESIGN §5)',
}
# planned but not built yet: listed as not_applicable until their check exists
PENDING = {}

def main():
    props = [json.loads(l) for l in open(os.path.join(HERE, 'properties.jsonl'))]
    ids = [p['id'] for p in props]
    checks = []
    for pid in ids:
        if pid in CHECKS:
            c = CHECKS[pid]
            checks.append({
                'property_id': pid,
                'quick_cmd': './check %s --tier quick' % pid,
                'thorough_cmd': './check %s --tier thorough' % pid,
                'evidence_file': 'evidence/%s.json' % pid,
                'replay_cmd_template': './check %s --replay {path}' % pid,
                'engine': c['engine'],
                'level_claimed': {'category': c['category'], 'text': c['text'], 'design_ref': c['design_ref']},
                'level_note': c['note'],
                'technique': c['technique'],
            })
    na = []
    for pid in ids:
        if pid in CHECKS:
            continue
        reason = NOT_APPLICABLE.get(pid) or PENDING.get(pid)
        assert reason, pid
        na.append({'property_id': pid, 'reason': reason})
    hooks = json.load(open(os.path.join(HERE, 'tools', 'hooks.json')))
    man = {
        'version': 1,
        'setup_cmd': './setup.sh',
        'hooks': hooks,
        'engines': [
            {'name': 'verus', 'path': 'vlib/verus.py', 'serves_properties': [p for p in CHECKS if CHECKS[p]['engine'] == 'verus'],
             'kind_free_text': 'Verus 0.2026.09.13 on functions extracted verbatim from /repo each run with contracts spliced at anchors'},
            {'name': 'kani', 'path': 'vlib/kani.py', 'serves_properties': [p for p in CHECKS if CHECKS[p]['engine'] == 'kani'],
             'kind_free_text': 'Kani 0.68 / CBMC 6.11 contract harnesses mounted in-crate under --cfg bytecodealliance_wit_bindgen_verif'},
            {'name': 'cbmc', 'path': 'vlib/cbmcrun.py', 'serves_properties': [p for p in CHECKS if CHECKS[p]['engine'] == 'cbmc'],
             'kind_free_text': 'CBMC 6.11 directly on generated C text (wasm32 data model)'},
            {'name': 'exprvc', 'path': 'vlib/exprvc.py', 'serves_properties': [p for p in CHECKS if CHECKS[p]['engine'] == 'exprvc'],
             'kind_free_text': 'verification conditions over emitted conversion expressions (Kani for Rust text, CBMC for C text, z3 for the others)'},
        ],
        'checks': checks,
        'not_applicable': na,
        'notes': 'Single entry point ./check <ID> --tier quick|thorough. Exit 0 held, 1 VIOLATION, 2 undecided (lost anchor, unsupported construct, timeout, support-only proof failure without a failing input). See DESIGN.md.',
    }
    with open(os.path.join(HERE, 'MANIFEST.json'), 'w') as f:
        json.dump(man, f, indent=1)
        f.write('\n')
    try:
        import jsonschema
        jsonschema.validate(man, json.load(open('/root/.vp/MANIFEST.schema.json')))
        print('MANIFEST.json valid; %d checks, %d not_applicable' % (len(checks), len(na)))
    except ImportError:
        print('jsonschema not importable here; wrote MANIFEST.json unvalidated')

if __name__ == '__main__':
    main()
