#!/usr/bin/env python3
"""krun.py <filter>... [--timeout N] [--features F] [--repo R]: run matching guest-rust harnesses, print status per harness"""
import sys, os, argparse
sys.path.insert(0, os.path.dirname(os.path.dirname(os.path.abspath(__file__))))
ap = argparse.ArgumentParser()
ap.add_argument('filters', nargs='+')
ap.add_argument('--timeout', type=int, default=200)
ap.add_argument('--features', default='async,std')
ap.add_argument('--crate', default='crates/guest-rust')
ap.add_argument('--target', default='kani-guest')
ap.add_argument('-v', action='store_true')
a = ap.parse_args()
from vlib import kani
from vlib.common import Report
rep = Report('tmp', 'quick')
rc, out, secs, to = kani.cargo_kani(a.crate, a.filters, a.features, a.target, rep, a.timeout)
res = kani._parse(out)
if not res:
    print(out[-4000:])
for k, r in sorted(res.items()):
    print('%-70s %-10s %7.1fs checks=%s covers=%s' % (k.split('::')[-1], r['status'], r['time'], r['checks'], r['covers']))
    if r['status'] == 'FAILED' or a.v:
        for l in r['lines']:
            if 'Failed Checks' in l or 'File:' in l or 'error' in l:
                print('      ', l.strip()[:220])
print('wall %.1fs' % secs)
