#!/usr/bin/env python3
"""mutants.py <worktree> <check-id> <file.json>: apply each hand-made mutant (rel, old, new) to the scratch worktree, run
./check <id> against it (VERIF_REPO), print the verdict line, revert.  Self-test of the postconditions; nothing is committed."""
import json, os, subprocess, sys
wt, cid, spec = sys.argv[1:4]
muts = json.load(open(spec))
for m in muts:
    p = os.path.join(wt, m['file'])
    s = open(p).read()
    if s.count(m['old']) != 1:
        print('MUTANT %s: pattern matched %d times' % (m['name'], s.count(m['old']))); continue
    open(p, 'w').write(s.replace(m['old'], m['new']))
    env = dict(os.environ, VERIF_REPO=wt)
    r = subprocess.run(['./check', m.get('check', cid)], cwd='/verif', env=env, stdout=subprocess.PIPE, stderr=subprocess.STDOUT, text=True)
    lines = [l[:260] for l in r.stdout.splitlines() if l.startswith(('VIOLATION', 'OK ', 'UNDECIDED', 'KNOWN'))]
    print('MUTANT %-40s exit=%d  %s' % (m['name'], r.returncode, ' || '.join(lines[:3])), flush=True)
    open(p, 'w').write(s)
