#!/usr/bin/env python3
"""mutate.py <worktree> <relpath> <old> <new>  -- apply one textual replacement (must match exactly once) in a scratch worktree"""
import sys
wt, rel, old, new = sys.argv[1:5]
p = wt + '/' + rel
s = open(p).read()
n = s.count(old)
if n != 1:
    sys.exit('pattern matched %d times' % n)
open(p, 'w').write(s.replace(old, new))
