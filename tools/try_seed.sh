#!/bin/bash
# try_seed.sh <ID> <patch> [check-id]: apply a seeded change to /repo, run the check, undo it straight afterwards.
ID=$1; P=$2; CID=${3:-$ID}
cd /repo && [ -z "$(git status --porcelain)" ] || { echo "/repo not clean"; exit 2; }
git -C /repo apply "$P" || exit 2
cd /verif && VERIF_SCRATCH_OUT=1 ./check $CID --tier ${TIER:-quick}; rc=$?
git -C /repo checkout -- .
echo "exit=$rc"; [ -z "$(git -C /repo status --porcelain)" ] && echo "/repo restored"
