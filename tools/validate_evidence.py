#!/usr/bin/env python3
"""validate_evidence.py  -- every evidence/<id>.json must validate against the evidence schema, match the
level claimed in MANIFEST.json, describe /repo (not a scratch copy) and, for a proof-level record, have
coverage.discharged == coverage.obligations.  Exit 1 on any problem.  (python3-vt has jsonschema.)"""
import json, os, sys
V = os.path.dirname(os.path.dirname(os.path.abspath(__file__)))
schema_path = '/root/.vp/EVIDENCE.schema.json'
try:
    import jsonschema
except ImportError:
    jsonschema = None
man = json.load(open(os.path.join(V, 'MANIFEST.json')))
bad = 0
for c in man['checks']:
    pid = c['property_id']
    p = os.path.join(V, c['evidence_file'])
    try:
        ev = json.load(open(p))
    except Exception as e:
        print('BAD %s: %s' % (pid, e)); bad += 1; continue
    probs = []
    if jsonschema and os.path.exists(schema_path):
        for e in jsonschema.Draft202012Validator(json.load(open(schema_path))).iter_errors(ev):
            probs.append('schema: ' + e.message[:200])
    cov = ev.get('coverage', {})
    if ev.get('property_id') != pid:
        probs.append('property_id mismatch')
    if ev.get('level') != c['level_claimed']['category']:
        probs.append('level %r != claimed %r' % (ev.get('level'), c['level_claimed']['category']))
    if ev.get('level') == 'proof' and cov.get('discharged') != cov.get('obligations'):
        probs.append('discharged (%s) != obligations (%s)' % (cov.get('discharged'), cov.get('obligations')))
    if ev.get('violations'):
        probs.append('violations=%s' % ev['violations'])
    if cov.get('undecided'):
        probs.append('undecided=%s' % cov['undecided'])
    txt = json.dumps(ev)
    if '/tmp/' in txt:
        probs.append('mentions a /tmp path (record of a scratch copy?)')
    print('%s %s level=%s tier=%s obligations=%s discharged=%s bounded=%s/%s' % (
        'BAD' if probs else 'ok ', pid, ev.get('level'), ev.get('tier'), cov.get('obligations'), cov.get('discharged'),
        cov.get('bounded_discharged'), cov.get('bounded_obligations')))
    for q in probs:
        print('    ' + q)
    bad += bool(probs)
sys.exit(1 if bad else 0)
