"""Template extraction from the match arms of a backend's `Bindgen::emit`.

For each scalar-conversion `Instruction` the arm is located by name in the real source on every run and its body
is classified into one of a few shapes, each of which determines the text the generator emits for an operand:

  S1  results.push(format!("<template>", <operand>))            -> the template, `{}` = the operand
  S2  top_as("<ty>")                                             -> the file's own `top_as` closure template with {cvt} = <ty>
  S3  results.push(operands[0].clone()) / operands.pop().unwrap() -> the operand unchanged
  S4  format!("{}(<..>)", self.r#gen.path_to_<item>(), ..)        -> a call of the named runtime item (Rust backend)
  S5  the Go backend's statement form for I32FromBool             -> recognised by its text

What is dropped: everything else in `emit` (the other ~80 instructions), the surrounding generator state, and the
way the emitted text is later spliced into a function body.  An arm in no recognised shape raises UnknownShape: the
caller reports that (backend, instruction) as undecided, never as a violation.
"""
import re
from . import rustsrc
from .rustsrc import LostAnchor


class UnknownShape(Exception):
    pass


def split_arms(text, mask, lo, hi):
    """top-level arms of a match body text[lo:hi] -> [(pattern_text, body_text, offset)]"""
    arms = []
    i = lo
    n = hi
    while i < n:
        # skip whitespace / comments
        while i < n and (not mask[i] or text[i] in ' \t\r\n,'):
            i += 1
        if i >= n:
            break
        # pattern: up to top-level `=>`
        depth = 0
        j = i
        while j < n:
            if mask[j]:
                c = text[j]
                if c in '([{':
                    depth += 1
                elif c in ')]}':
                    depth -= 1
                elif c == '=' and text[j + 1] == '>' and depth == 0:
                    break
            j += 1
        if j >= n:
            break
        pat = text[i:j]
        k = j + 2
        while k < n and text[k] in ' \t\r\n':
            k += 1
        if text[k] == '{' and mask[k]:
            e = rustsrc.match_close(text, mask, k)
            body = text[k:e + 1]
            i = e + 1
        else:
            depth = 0
            e = k
            while e < n:
                if mask[e]:
                    c = text[e]
                    if c in '([{':
                        depth += 1
                    elif c in ')]}':
                        depth -= 1
                    elif c == ',' and depth == 0:
                        break
                e += 1
            body = text[k:e]
            i = e + 1
        arms.append((pat, body, k))
    return arms


def rust_str(lit):
    """contents of a Rust (non-raw) string literal, with `{{`/`}}` kept for the template step"""
    s = lit[1:-1]
    s = re.sub(r'\\\n\s*', '', s)
    return s.replace('\\"', '"').replace('\\n', '\n').replace('\\\\', '\\')


def unbrace(t):
    return t.replace('{{', '\x00').replace('}}', '\x01')


def rebrace(t):
    return t.replace('\x00', '{').replace('\x01', '}')


class Emit:
    def __init__(self, path, fn_re=r'\bfn\s+emit\b', match_re=r'\bmatch\s+inst(?:ruction)?\s*\{', nth=None, within_re=None):
        self.src = rustsrc.Source(path)
        within = self.src.find(within_re) if within_re else None
        self.fn = self.src.find(fn_re, within, nth)
        ms = list(rustsrc.code_finditer(match_re, self.src.text, self.src.mask, self.fn.open, self.fn.close))
        if len(ms) < 1:
            raise LostAnchor('%s: no `match inst {` in emit' % path)
        op = ms[0].end() - 1
        cl = rustsrc.match_close(self.src.text, self.src.mask, op)
        self.arms = split_arms(self.src.text, self.src.mask, op + 1, cl)
        self.by_name = {}
        for pat, body, off in self.arms:
            pmask = rustsrc.code_mask(pat)
            for m in re.finditer(r'\bInstruction::(\w+)', pat):
                if pmask[m.start()]:
                    self.by_name.setdefault(m.group(1), []).append((pat, body, off))
        # the file's `top_as` closure, if any
        self.top_as = None
        m = re.search(r'let\s+mut\s+top_as\s*=\s*\|cvt:\s*&str\|\s*\{(.*?)\};', self.src.text[self.fn.open:self.fn.close], re.S)
        if m:
            body = m.group(1)
            f = re.search(r'results\.push\(format!\(\s*("(?:[^"\\]|\\.)*")\s*,\s*operands\.pop\(\)\.unwrap\(\)\s*\)\)', body)
            if f:
                self.top_as = rebrace(unbrace(rust_str(f.group(1))).replace('{}', '\x02')).replace('\x02', '{}')
            elif re.search(r's\.push_str\(" as "\);\s*s\.push_str\(cvt\);', body):
                self.top_as = '{} as {cvt}'

    def line_of(self, off):
        return self.src.text.count('\n', 0, off) + 1

    def template(self, inst):
        """returns (template_text with `{}` for the operand, shape, line) for an Instruction name"""
        hits = self.by_name.get(inst)
        if not hits:
            raise LostAnchor('%s: no arm for Instruction::%s' % (self.src.path, inst))
        if len(hits) > 1:
            raise LostAnchor('%s: %d arms mention Instruction::%s' % (self.src.path, len(hits), inst))
        pat, body, off = hits[0]
        line = self.line_of(off)
        b = body.strip()
        if b.startswith('{') and b.endswith('}'):
            b = b[1:-1].strip()
        b = b.rstrip(';').strip()
        flat = re.sub(r'\s+', ' ', b)
        # leading statements that only record a dependency of the generated file (no effect on the emitted text)
        flat = re.sub(r'^(?:self\.use_ffi\(ffi::\w+\); ?|self\.needs_\w+ = true; ?|self\.dependencies\.needs_\w+ = true; ?)+', '', flat)
        OPER = r'(?:operands\[0\](?:\.clone\(\))?|operands\.pop\(\)\.unwrap\(\)|&?operands\[0\])'
        # S3 identity
        if re.fullmatch(r'results\.push\(%s\)' % OPER, flat):
            return '{}', 'S3 identity', line
        # S2 top_as
        m = re.fullmatch(r'top_as\("([^"]+)"\)', flat)
        if m:
            if not self.top_as:
                raise UnknownShape('top_as used but its closure was not recognised')
            return self.top_as.replace('{cvt}', m.group(1)), 'S2 top_as', line
        # S1 / S4 format!
        m = re.fullmatch(r'(?:let s = operands\.pop\(\)\.unwrap\(\); )?results\.push\(format!\( ?("(?:[^"\\]|\\.)*") ?((?:, ?[^,]+?)*),? ?\)\)', flat)
        if m:
            tmpl = unbrace(rust_str(m.group(1)))
            args = [a.strip() for a in m.group(2).split(',') if a.strip()]
            ai = iter(args)

            def sub(mm):
                name = mm.group(1)
                if name == 's':
                    return '\x02'
                if name:
                    raise UnknownShape('inline format argument {%s}' % name)
                try:
                    a = next(ai)
                except StopIteration:
                    raise UnknownShape('more {} than arguments')
                if re.fullmatch(OPER, a) or a == 's':
                    return '\x02'
                pm = re.fullmatch(r'self\.r#gen\.path_to_(\w+)\(\)', a)
                if pm:
                    return pm.group(1)
                raise UnknownShape('format argument %r' % a)
            out = re.sub(r'\{(\w*)\}', sub, tmpl)
            if out.count('\x02') != 1:
                raise UnknownShape('operand appears %d times in %r' % (out.count('\x02'), tmpl))
            return rebrace(out).replace('\x02', '{}'), 'S1 format' if 'path_to_' not in flat else 'S4 runtime item call', line
        # S5 Go statement form of I32FromBool
        if 'var {result} int32' in b and re.search(r'if \{value\} \{\{\s*\{result\} = 1\s*\}\} else \{\{\s*\{result\} = 0\s*\}\}', b) \
                and 'let value = &operands[0];' in b and re.search(r'results\.push\(result\)', b):
            return '__go_if_then_1_else_0({})', 'S5 go statement form', line
        raise UnknownShape('arm body not in a recognised shape: %s' % flat[:200])
