"""CBMC on generated C text: run one entry function, classify the failed properties, attach the counterexample trace."""
import json, os, re, time
from .common import Obligation, run


def run_function(src, function, include_dirs=(), flags=(), timeout=900):
    """returns dict(status: ok|failed|undecided, failed: [descriptions], checks: n, seconds, trace: str, raw: str)"""
    cmd = ['cbmc', src, '--function', function, '--json-ui', '--trace'] + [x for d in include_dirs for x in ('-I', d)] + list(flags)
    t0 = time.time()
    rc, out, err, secs, to = run(cmd, cwd=os.path.dirname(src), timeout=timeout)
    res = {'status': 'undecided', 'failed': [], 'checks': 0, 'seconds': secs, 'trace': '', 'raw': (out[-1500:] + err[-500:]), 'cmd': ' '.join(cmd)}
    if to:
        res['raw'] = 'timeout after %ds' % timeout
        return res
    try:
        j = json.loads(out)
    except Exception:
        return res
    props = None
    for item in j:
        if isinstance(item, dict) and 'result' in item:
            props = item['result']
    if props is None:
        msgs = ' | '.join(str(i.get('messageText', '')) for i in j if isinstance(i, dict) and i.get('messageType') == 'ERROR')
        res['raw'] = 'cbmc reported no result: ' + msgs[:800]
        return res
    res['checks'] = len(props)
    failed = [p for p in props if p.get('status') == 'FAILURE']
    if not failed:
        res['status'] = 'ok'
        return res
    res['status'] = 'failed'
    for p in failed:
        res['failed'].append('%s [%s]' % (p.get('description', ''), p.get('property', '')))
    # inputs of the first counterexample: every nondet assignment in the trace
    vals = []
    for st in failed[0].get('trace', []):
        if st.get('stepType') == 'assignment' and st.get('assignmentType') == 'variable':
            lhs = st.get('lhs', '')
            v = st.get('value', {})
            if 'nondet' in json.dumps(st.get('sourceLocation', {})) or re.match(r'^(x|y|a|b|c|h|n|m|v|rv|f|rf|rc|tag|rtag|payload|some|err|inl|inb|in\[|ret_\w+)', lhs):
                vals.append('%s=%s' % (lhs, v.get('data', v.get('name', '?'))))
    res['trace'] = ', '.join(vals[:40])
    return res
