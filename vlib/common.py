"""Shared plumbing: obligation table, verdicts, evidence, known findings, subprocesses."""
import json
import os
import re
import subprocess
import sys
import time

VERIF = os.path.dirname(os.path.dirname(os.path.abspath(__file__)))
REPO = os.environ.get('VERIF_REPO', '/repo')
BUILD_ROOT = os.path.join(VERIF, '.build')
# Every tree gets its own build root.  Cargo "uplifts" a finished binary to <target>/debug/<name> whatever workspace it
# came from, so a target directory shared between /repo and a scratch copy can leave the scratch copy's binary (built
# from a deliberately broken tree) in place for the next run on /repo -- which then reports the mutant's violation on the
# unchanged tree.  (That happened once with the wit-bindgen CLI; see DESIGN 9.8.)
if os.path.realpath(REPO) == '/repo':
    BUILD = BUILD_ROOT
else:
    import hashlib as _h
    BUILD = os.path.join(BUILD_ROOT, 'scratch', _h.md5(os.path.realpath(REPO).encode()).hexdigest()[:8])
# Evidence and replay files under /verif describe /repo only.  A run pointed at a scratch copy
# (VERIF_REPO=..., used by the mutation self-test) writes them under .build/scratch-out instead, so a
# record of a deliberately broken tree can never end up in the committed evidence directory.
# (also when VERIF_SCRATCH_OUT=1: /repo itself carries a deliberately applied seeded change, tools/try_seed.sh)
OUT = (VERIF if os.path.realpath(REPO) == '/repo' and not os.environ.get('VERIF_SCRATCH_OUT')
       else os.path.join(BUILD, 'scratch-out'))
GUARD = 'bytecodealliance_wit_bindgen_verif'
NCPU = int(os.environ.get('VERIF_JOBS', '0')) or (os.cpu_count() or 4)

EXIT_OK, EXIT_VIOLATION, EXIT_UNDECIDED = 0, 1, 2


class Undecided(Exception):
    """Lost anchor, unsupported construct, tool failure, timeout: exit 2, never an alarm."""


def offline_env(extra=None):
    env = dict(os.environ)
    env.update({'CARGO_NET_OFFLINE': 'true', 'GOPROXY': 'off', 'PIP_NO_INDEX': '1'})
    if extra:
        env.update(extra)
    return env


def run(cmd, cwd=None, env=None, timeout=None, input_=None):
    """returns (rc, stdout, stderr, seconds, timed_out)"""
    t0 = time.time()
    try:
        p = subprocess.run(cmd, cwd=cwd, env=env, timeout=timeout, input=input_,
                           stdout=subprocess.PIPE, stderr=subprocess.PIPE, text=True, errors='replace')
        return p.returncode, p.stdout, p.stderr, time.time() - t0, False
    except subprocess.TimeoutExpired as e:
        out = e.stdout.decode(errors='replace') if isinstance(e.stdout, bytes) else (e.stdout or '')
        err = e.stderr.decode(errors='replace') if isinstance(e.stderr, bytes) else (e.stderr or '')
        return -9, out, err, time.time() - t0, True


class Obligation:
    def __init__(self, oid, function, kind, backend, status='pending', seconds=0.0, detail='',
                 bounded=None, replay=None):
        self.id = oid
        self.function = function      # real function(s) in /repo this obligation is about
        self.kind = kind              # 'property' | 'support' | 'vacuity'
        self.backend = backend        # 'verus/z3', 'kani/cbmc', 'cbmc', 'z3'
        self.status = status          # discharged | failed | undecided | known-finding
        self.seconds = seconds
        self.detail = detail
        self.bounded = bounded        # None (unbounded proof) or a string stating the bound
        self.replay = replay          # dict describing counterexample / replay outcome

    def as_dict(self):
        d = {'id': self.id, 'function': self.function, 'kind': self.kind, 'backend': self.backend,
             'status': self.status, 'seconds': round(self.seconds, 3)}
        if self.bounded:
            d['bounded'] = self.bounded
        if self.detail:
            d['detail'] = self.detail[:400]
        return d


def load_known_findings():
    path = os.path.join(VERIF, 'known-findings.txt')
    findings = []
    if os.path.exists(path):
        for line in open(path):
            line = line.strip()
            if not line or line.startswith('#'):
                continue
            m = re.match(r'finding:\s+property=(\S+)\s+obligation=(\S+)\s+(.*)$', line)
            if m:
                findings.append({'property': m.group(1), 'obligation': m.group(2), 'what': m.group(3)})
    return findings


class Report:
    def __init__(self, pid, tier, level='proof'):
        self.pid = pid
        self.tier = tier
        self.level = level
        self.t0 = time.time()
        self.obligations = []
        self.trusted = []
        self.assumptions = []
        self.functions = []          # functions under contract: 'path::fn @line sha'
        self.rewrites = []           # extraction rewrites actually applied
        self.samples = []
        self.checker_cmds = []
        self.notes = []
        self.undecided_reasons = []
        self.extra = {}
        self.seed = int(os.environ.get('VERIF_SEED', '0') or 0)
        import glob
        for f in glob.glob(os.path.join(OUT, 'replay', pid + '-*')):
            os.remove(f)

    def add(self, ob):
        self.obligations.append(ob)
        return ob

    def trust(self, *items):
        for i in items:
            if i not in self.trusted:
                self.trusted.append(i)

    def assume(self, *items):
        for i in items:
            if i not in self.assumptions:
                self.assumptions.append(i)

    def undecided(self, reason):
        self.undecided_reasons.append(reason)

    # ---------------------------------------------------------------- verdict
    def finish(self):
        known = [k for k in load_known_findings() if k['property'] == self.pid]
        violations = []
        known_hits = []
        for ob in self.obligations:
            if ob.status == 'failed' and ob.kind == 'support' and (ob.replay or {}).get('input') is None:
                # a proof-carrying obligation (lemma, frame invariant, spliced assertion) no longer goes
                # through and no failing input was found on the real code: the proof strategy does not fit
                # the code any more.  That is "undecided", not a violation of the property.
                ob.status = 'undecided'
                ob.detail = 'support obligation failed without a failing input (proof no longer fits the code): ' + ob.detail
            if ob.status == 'failed':
                hit = [k for k in known if k['obligation'] == ob.id]
                if hit:
                    ob.status = 'known-finding'
                    known_hits.append((ob, hit[0]))
                else:
                    violations.append(ob)
        undecided = [ob for ob in self.obligations if ob.status in ('undecided', 'pending')]
        os.makedirs(os.path.join(OUT, 'replay'), exist_ok=True)
        lines = []
        for ob, k in known_hits:
            lines.append('KNOWN-FINDING: property=%s %s %s' % (self.pid, ob.id, k['what']))
        for ob in violations:
            rp = os.path.join(OUT, 'replay', '%s-%s.txt' % (self.pid, re.sub(r'[^A-Za-z0-9_.-]+', '_', ob.id)))
            with open(rp, 'w') as f:
                f.write('property: %s\nobligation: %s\nkind: %s\nfunction: %s\nbackend: %s\n' %
                        (self.pid, ob.id, ob.kind, ob.function, ob.backend))
                if ob.bounded:
                    f.write('bounded: %s\n' % ob.bounded)
                rep = ob.replay or {}
                f.write('counterexample: %s\n' % ('yes' if rep.get('input') is not None else 'none (no-failing-input-found)'))
                for k2, v in rep.items():
                    f.write('--- %s ---\n%s\n' % (k2, v if isinstance(v, str) else json.dumps(v, indent=1)))
                f.write('--- verifier output ---\n%s\n' % ob.detail)
            suffix = '' if (ob.replay or {}).get('input') is not None else ' no-failing-input-found'
            lines.append('VIOLATION property=%s replay=%s obligation=%s kind=%s%s' %
                         (self.pid, rp, ob.id, ob.kind, suffix))
        for l in lines:
            print(l)
        self._write_evidence(violations, known_hits, undecided)
        if violations:
            return EXIT_VIOLATION
        if undecided or self.undecided_reasons:
            for ob in undecided:
                print('UNDECIDED %s: %s' % (ob.id, ob.detail[:300].replace('\n', ' | ')))
            for r in self.undecided_reasons:
                print('UNDECIDED: %s' % r)
            return EXIT_UNDECIDED
        proved = [o for o in self.obligations if o.status == 'discharged' and not o.bounded and o.kind != 'vacuity']
        bounded = [o for o in self.obligations if o.status == 'discharged' and o.bounded]
        # same counting rule as the evidence file: vacuity guards (checks that MUST be rejected) are not
        # obligations of the property and are reported on their own
        nobs = len([o for o in self.obligations if o.kind != 'vacuity'])
        guards = [o for o in self.obligations if o.kind == 'vacuity']
        print('OK property=%s tier=%s obligations=%d discharged=%d bounded=%d known-findings=%d '
              'vacuity-guards=%d/%d wall=%.1fs' % (
                  self.pid, self.tier, nobs, len(proved) + len(bounded), len(bounded), len(known_hits),
                  len([o for o in guards if o.status == 'discharged']), len(guards), time.time() - self.t0))
        return EXIT_OK

    def _write_evidence(self, violations, known_hits, undecided):
        obs = [o for o in self.obligations if o.kind != 'vacuity']
        unb = [o for o in obs if not o.bounded]
        bnd = [o for o in obs if o.bounded]
        # level proof: only unbounded obligations count; any other level (bounded stand-in): all of them
        counted = unb if (self.level == 'proof' and unb) else obs
        by_backend = {}
        for o in self.obligations:
            b = by_backend.setdefault(o.backend, {'obligations': 0, 'discharged': 0, 'seconds': 0.0})
            b['obligations'] += 1
            b['discharged'] += 1 if o.status == 'discharged' else 0
            b['seconds'] = round(b['seconds'] + o.seconds, 3)
        cov = {
            'obligations': len(counted),
            'discharged': len([o for o in counted if o.status == 'discharged']),
            'checker_cmd': ' ; '.join(self.checker_cmds) or 'n/a',
            'trusted_base': self.trusted,
            'explanation': (('obligations/discharged count the unbounded (proof) obligations only; '
                             'bounded stand-ins are listed under bounded_obligations with their bound and are '
                             'not counted as proved. ') if self.level == 'proof' else
                            ('BOUNDED contract checking, not a proof: obligations/discharged count every obligation; '
                             'bounded_obligations of them hold only up to the bound stated in obligation_table[].bounded. '))
                           + ' '.join(self.notes),
            'bounded_obligations': len(bnd),
            'bounded_discharged': len([o for o in bnd if o.status == 'discharged']),
            'known_findings': [{'obligation': o.id, 'what': k['what']} for o, k in known_hits],
            'undecided': [o.id for o in undecided] + self.undecided_reasons,
            'functions_under_contract': self.functions,
            'extraction_rewrites': self.rewrites,
            'per_backend': by_backend,
            'vacuity_guards': [o.as_dict() for o in self.obligations if o.kind == 'vacuity'],
            'obligation_table': [o.as_dict() for o in obs],
            'samples': self.samples[:12] or [o.as_dict() for o in obs[:5]],
        }
        cov.update(self.extra)
        level = self.level
        if known_hits and level == 'proof':
            # a listed finding means the property is NOT proved on this tree; do not file the run as a proof
            level = 'other'
            cov['explanation'] = ('known findings present (%d): the remaining obligations were discharged but the '
                                  'property as a whole is not proved. ' % len(known_hits)) + cov['explanation']
        ev = {
            'property_id': self.pid,
            'tier': self.tier,
            'seed': self.seed,
            'level': level,
            'coverage': cov,
            'assumptions': self.assumptions,
            'wall_s': round(time.time() - self.t0, 2),
            'violations': len(violations),
        }
        os.makedirs(os.path.join(OUT, 'evidence'), exist_ok=True)
        with open(os.path.join(OUT, 'evidence', self.pid + '.json'), 'w') as f:
            json.dump(ev, f, indent=1)
            f.write('\n')


def scan_trusted(text, label):
    """mechanical scan for assumption constructs in verified text / harness text"""
    out = []
    for pat in [r'\bassume\s*\(', r'\badmit\s*\(', r'external_body', r'assume_specification',
                r'kani::stub\b', r'kani::assume\s*\(', r'uninterp\s+spec\s+fn', r'external_type_specification',
                r'exec_allows_no_decreases_clause']:
        n = len(re.findall(pat, text))
        if n:
            out.append('%s: %d x %s' % (label, n, pat.replace('\\b', '').replace('\\s*\\(', '(').replace('\\s+', ' ')))
    return out
