"""Verification conditions over conversion expressions emitted by the generators.

The text of an emitted expression (Rust, C, C++, C#, D, Go, MoonBit) is parsed into a small typed AST and
translated to an SMT-LIB bit-vector term under a per-language semantics table; z3 then decides, for ALL bit
patterns of the operand, that the term equals the Canonical ABI's conversion.  The per-language tables
(type widths/signedness, what a cast between integer types does, what each named library function does) are the
TRUSTED part and are listed in the evidence; everything else (which expression a generator emits for which
conversion) is read from /repo on every run.

An expression outside the grammar or the tables raises Unsupported -> the obligation is undecided (exit 2),
never an alarm.
"""
import re
import subprocess


class Unsupported(Exception):
    pass


class Ty:
    def __init__(self, name, kind, width, signed=False):
        self.name, self.kind, self.width, self.signed = name, kind, width, signed

    def __repr__(self):
        return self.name


def _mk(table):
    return {n: Ty(n, k, w, s) for n, (k, w, s) in table.items()}


def types_for(lang, p):
    """type table of a target language for pointer width p (32/64)"""
    I, F, B, P, C = 'int', 'float', 'bool', 'ptr', 'char'
    if lang == 'rust':
        t = {'i8': (I, 8, True), 'u8': (I, 8, False), 'i16': (I, 16, True), 'u16': (I, 16, False),
             'i32': (I, 32, True), 'u32': (I, 32, False), 'i64': (I, 64, True), 'u64': (I, 64, False),
             'usize': (I, p, False), 'isize': (I, p, True), 'f32': (F, 32, False), 'f64': (F, 64, False),
             'bool': (B, 1, False), 'char': (C, 32, False), '*mut u8': (P, p, False),
             '::core::mem::MaybeUninit::<u64>': ('mu64', 64, False)}
    elif lang in ('c', 'cpp'):
        t = {'int8_t': (I, 8, True), 'uint8_t': (I, 8, False), 'int16_t': (I, 16, True), 'uint16_t': (I, 16, False),
             'int32_t': (I, 32, True), 'uint32_t': (I, 32, False), 'int64_t': (I, 64, True), 'uint64_t': (I, 64, False),
             'size_t': (I, p, False), 'uintptr_t': (I, p, False), 'float': (F, 32, False), 'double': (F, 64, False),
             'bool': (B, 1, False), 'uint8_t *': (P, p, False), 'uint8_t*': (P, p, False), 'int': (I, 32, True)}
    elif lang == 'csharp':
        t = {'sbyte': (I, 8, True), 'byte': (I, 8, False), 'short': (I, 16, True), 'ushort': (I, 16, False),
             'int': (I, 32, True), 'uint': (I, 32, False), 'long': (I, 64, True), 'ulong': (I, 64, False),
             'nint': (I, p, True), 'float': (F, 32, False), 'double': (F, 64, False), 'bool': (B, 1, False)}
    elif lang == 'd':
        t = {'byte': (I, 8, True), 'ubyte': (I, 8, False), 'short': (I, 16, True), 'ushort': (I, 16, False),
             'int': (I, 32, True), 'uint': (I, 32, False), 'long': (I, 64, True), 'ulong': (I, 64, False),
             'size_t': (I, p, False), 'float': (F, 32, False), 'double': (F, 64, False), 'bool': (B, 1, False),
             'dchar': (C, 32, False), 'void*': (P, p, False)}
    elif lang == 'go':
        t = {'int8': (I, 8, True), 'uint8': (I, 8, False), 'int16': (I, 16, True), 'uint16': (I, 16, False),
             'int32': (I, 32, True), 'uint32': (I, 32, False), 'int64': (I, 64, True), 'uint64': (I, 64, False),
             'uintptr': (I, p, False), 'float32': (F, 32, False), 'float64': (F, 64, False), 'bool': (B, 1, False),
             'rune': (I, 32, True)}
    elif lang == 'moonbit':
        t = {'Int': (I, 32, True), 'UInt': (I, 32, False), 'Int64': (I, 64, True), 'UInt64': (I, 64, False),
             'Byte': (I, 8, False), 'Float': (F, 32, False), 'Double': (F, 64, False), 'Bool': (B, 1, False),
             'Char': (C, 32, False)}
    else:
        raise Unsupported('no type table for language ' + lang)
    return _mk(t)


TRUSTED_TABLES = [
    'exprvc type tables: width and signedness of every scalar type name of Rust, C/C++ (stdint), C#, D, Go, MoonBit',
    'exprvc integer conversion: a cast/conversion between integer types truncates to a narrower type and extends to a wider one '
    'by the SOURCE type\'s signedness (Rust `as`, C/C++ casts, C# unchecked casts, D cast(), Go T(x), MoonBit to_*); '
    'pointer<->integer casts treat the pointer as an unsigned integer of pointer width',
    'exprvc library functions: Rust to_bits/from_bits/{i64,i32,...}::from/MaybeUninit::{new,assume_init,as_ptr().cast().read()}; '
    'C union type punning; C++ std::bit_cast; C# BitConverter.{SingleToInt32Bits,Int32BitsToSingle,DoubleToInt64Bits,Int64BitsToDouble}; '
    'D reinterpretCast!T; Go math.{Float32bits,Float32frombits,Float64bits,Float64frombits}; MoonBit reinterpret_as_*/to_*/land/'
    'Int::unsafe_to_char and the mbt_ffi_extend8/16 helpers (checked to be i32.extend8_s/i32.extend16_s in crates/moonbit/src/ffi.rs)',
    'floating-point values are carried as their IEEE bit patterns; only bit-preserving float operations are modelled, plus Rust\'s `float as integer` (round toward zero, saturating, NaN -> 0) so that a numeric cast emitted where a reinterpretation is due is refuted rather than left undecided',
]

# ---------------------------------------------------------------------------------------------- SMT helpers


class Val:
    def __init__(self, smt, ty):
        self.smt, self.ty = smt, ty


def bv(n, w):
    return '(_ bv%d %d)' % (n % (1 << w), w)


def ext(term, frm, to, signed):
    if to == frm:
        return term
    if to < frm:
        return '((_ extract %d 0) %s)' % (to - 1, term)
    return '((_ %s %d) %s)' % ('sign_extend' if signed else 'zero_extend', to - frm, term)


RUST_FLOAT_AS_INT = [False]   # set while a Rust expression is evaluated


def conv(v, to):
    """the language-independent meaning of converting a value to another scalar type (see TRUSTED_TABLES)"""
    f = v.ty
    if f.kind == to.kind and f.width == to.width:
        return Val(v.smt, to)
    if to.kind == 'bool':
        if f.kind in ('int', 'char', 'ptr'):
            return Val('(ite (= %s %s) #b0 #b1)' % (v.smt, bv(0, f.width)), to)
        raise Unsupported('conversion %s -> bool' % f)
    if f.kind == 'bool' and to.kind in ('int', 'char'):
        return Val(ext(v.smt, 1, to.width, False), to)
    ints = ('int', 'char', 'ptr')
    if f.kind in ints and to.kind in ints:
        return Val(ext(v.smt, f.width, to.width, f.signed and f.kind == 'int'), to)
    if f.kind == 'float' and to.kind == 'float' and f.width == to.width:
        return Val(v.smt, to)
    if f.kind == 'float' and to.kind == 'float':
        # float <-> double: a VALUE conversion (IEEE 754 round-to-nearest-even), not a reinterpretation; the result is again carried as its bit pattern
        eb0, sb0 = (8, 24) if f.width == 32 else (11, 53)
        eb1, sb1 = (8, 24) if to.width == 32 else (11, 53)
        return Val('(fp.to_ieee_bv ((_ to_fp %d %d) RNE ((_ to_fp %d %d) %s)))' % (eb1, sb1, eb0, sb0, v.smt), to)
    if f.kind == 'float' and to.kind == 'int' and RUST_FLOAT_AS_INT[0]:
        # Rust `as`: round toward zero, saturate at the target's range, NaN -> 0 (a VALUE conversion, not a reinterpretation)
        eb, sb = (8, 24) if f.width == 32 else (11, 53)
        fp = '((_ to_fp %d %d) %s)' % (eb, sb, v.smt)
        w = to.width
        if to.signed:
            lo, hi = -(1 << (w - 1)), (1 << (w - 1)) - 1
            cvt = '((_ fp.to_sbv %d) RTZ %s)' % (w, fp)
        else:
            lo, hi = 0, (1 << w) - 1
            cvt = '((_ fp.to_ubv %d) RTZ %s)' % (w, fp)
        lo_fp = '((_ to_fp %d %d) RTZ %s)' % (eb, sb, ('(- %d.0)' % -lo) if lo < 0 else '%d.0' % lo)
        hi_fp = '((_ to_fp %d %d) RTZ %d.0)' % (eb, sb, hi)
        t = '(ite (fp.isNaN %s) %s (ite (fp.leq %s %s) %s (ite (fp.geq %s %s) %s %s)))' % (
            fp, bv(0, w), fp, lo_fp, bv(lo, w), fp, hi_fp, bv(hi, w), cvt)
        return Val(t, to)
    raise Unsupported('value conversion %s -> %s is not bit-level (not modelled)' % (f, to))


def reinterpret(v, to):
    if v.ty.width != to.width:
        raise Unsupported('reinterpret between different widths: %s -> %s' % (v.ty, to))
    return Val(v.smt, to)


# ---------------------------------------------------------------------------------------------- tokenizer / parser
TOK = re.compile(r'''\s*(?:
    (?P<num>0[xX][0-9A-Fa-f_]+|\d[\d_]*(?:\.\d+)?(?:[uUlLfFdD]|usize|u\d+|i\d+)*)
  | (?P<id>(?:::)?[A-Za-z_][A-Za-z0-9_]*(?:::[A-Za-z_][A-Za-z0-9_]*)*)
  | (?P<op>::<|=>|!=|==|<=|>=|<<|>>|&&|\|\||[-+*/%&|^!~?:.,(){}<>=;\[\]])
)''', re.X)


def tokenize(s):
    out, i = [], 0
    s = s.strip()
    while i < len(s):
        m = TOK.match(s, i)
        if not m or m.end() == i:
            raise Unsupported('cannot tokenize %r at %r' % (s, s[i:i + 12]))
        if m.group('num'):
            out.append(('num', m.group('num')))
        elif m.group('id'):
            out.append(('id', m.group('id')))
        else:
            out.append(('op', m.group('op')))
        i = m.end()
    return out


BIN_LEVELS = [['||'], ['&&'], ['|'], ['^'], ['&'], ['==', '!='], ['<', '>', '<=', '>='], ['<<', '>>'], ['+', '-'], ['*', '/', '%']]


class Parser:
    def __init__(self, lang, text, types):
        self.lang, self.types = lang, types
        self.toks = tokenize(text)
        self.i = 0
        self.text = text

    def peek(self, k=0):
        return self.toks[self.i + k] if self.i + k < len(self.toks) else ('eof', '')

    def eat(self, val=None):
        t = self.peek()
        if val is not None and t[1] != val:
            raise Unsupported('expected %r, found %r in %r' % (val, t[1], self.text))
        self.i += 1
        return t

    def at(self, val):
        return self.peek()[1] == val and self.peek()[0] != 'num'

    def parse(self):
        e = self.expr()
        if self.peek()[0] != 'eof':
            raise Unsupported('trailing tokens %r in %r' % (self.toks[self.i:], self.text))
        return e

    def expr(self):
        c = self.binary(0)
        if self.at('?') and self.lang in ('c', 'cpp', 'csharp', 'd'):
            self.eat('?')
            a = self.expr()
            self.eat(':')
            b = self.expr()
            return ('ite', c, a, b)
        return c

    def binary(self, lvl):
        if lvl == len(BIN_LEVELS):
            return self.ascast()
        a = self.binary(lvl + 1)
        while self.peek()[0] == 'op' and self.peek()[1] in BIN_LEVELS[lvl]:
            op = self.eat()[1]
            b = self.binary(lvl + 1)
            a = ('bin', op, a, b)
        return a

    def ascast(self):
        e = self.unary()
        while self.lang == 'rust' and self.peek() == ('id', 'as'):
            self.eat()
            e = ('cast', self.type_name(), e)
        return e

    def type_name(self, stop=None):
        """greedy: longest token sequence that names a type in the table"""
        best, j, acc = None, self.i, ''
        while j < len(self.toks) and self.toks[j][1] not in (')', ',', '{', ';') or (j < len(self.toks) and self.toks[j][1] == '>' and '<' in acc):
            t = self.toks[j][1]
            acc = (acc + (' ' if acc and (acc[-1].isalnum() or acc[-1] == '_') and (t[0].isalnum() or t[0] == '_') else '') + t)
            j += 1
            for cand in (acc, acc.replace(' *', '*'), acc.replace('*', ' *')):
                if cand in self.types:
                    best = (cand, j)
            if len(acc) > 48:
                break
        if not best:
            raise Unsupported('unknown type name at %r in %r' % (self.toks[self.i:self.i + 4], self.text))
        self.i = best[1]
        return best[0]

    def try_paren_type(self):
        """C-family `( T )` prefix: returns the type name when the parenthesised tokens name a type"""
        if not self.at('('):
            return None
        save = self.i
        self.i += 1
        try:
            n = self.type_name()
            if self.at(')'):
                self.eat(')')
                return n
        except Unsupported:
            pass
        self.i = save
        return None

    def unary(self):
        if self.peek()[0] == 'op' and self.peek()[1] in ('-', '!', '~'):
            op = self.eat()[1]
            return ('un', op, self.unary())
        if self.lang in ('c', 'cpp', 'csharp'):
            # compound literal `(union N){ e }` is handled in primary; a type in parens followed by an operand is a cast
            if self.at('(') and self.peek(1) == ('id', 'union'):
                return self.postfix(self.primary())
            n = self.try_paren_type()
            if n is not None:
                return ('cast', n, self.unary())
        if self.lang == 'd' and self.peek() == ('id', 'cast') and self.peek(1)[1] == '(':
            self.eat()
            self.eat('(')
            n = self.type_name()
            self.eat(')')
            return ('cast', n, self.unary())
        return self.postfix(self.primary())

    def args(self):
        self.eat('(')
        a = []
        while not self.at(')'):
            a.append(self.expr())
            if self.at(','):
                self.eat(',')
        self.eat(')')
        return a

    def generic(self):
        """`::<T>` (Rust) or `<A, B>` (C++): returns list of type names"""
        if self.at('::<'):
            self.eat('::<')
        else:
            self.eat('<')
        ts = [self.type_name()]
        while self.at(','):
            self.eat(',')
            ts.append(self.type_name())
        self.eat('>')
        return ts

    def postfix(self, e):
        while True:
            if self.at('.'):
                self.eat('.')
                name = self.eat()[1]
                gen = None
                if self.lang == 'd' and self.at('!'):
                    self.eat('!')
                    gen = [self.type_name()]
                elif self.at('::<'):
                    gen = self.generic()
                if self.at('('):
                    e = ('method', e, name, self.args(), gen)
                elif gen is not None:
                    e = ('method', e, name, [], gen)
                else:
                    e = ('field', e, name)
            else:
                return e

    def primary(self):
        k, v = self.peek()
        if k == 'num':
            self.eat()
            return ('num', v)
        if k == 'id':
            if v == 'match' and self.lang == 'rust':
                return self.rust_match()
            if v == 'if' and self.lang in ('rust', 'moonbit'):
                return self.if_expr()
            self.eat()
            # dotted static paths: global::System.BitConverter.F / math.F / uint.MaxValue
            name = v
            while self.at('.') and self.peek(1)[0] == 'id' and name not in ('x',) and self.lang in ('csharp', 'go') \
                    and (name.split('.')[0] in ('global::System', 'System', 'math', 'uint', 'int', 'long', 'ulong') or '.' in name):
                self.eat('.')
                name += '.' + self.eat()[1]
            gen = None
            if self.at('::<'):
                gen = self.generic()
            elif self.at('<') and self.lang == 'cpp' and name.startswith('std::'):
                gen = self.generic()
            if self.at('('):
                # Go/C++ function-style conversion T(e) when the name is a type
                return ('call', name, self.args(), gen)
            if gen is not None:
                return ('path', name, gen)
            return ('name', name)
        if v == '(':
            if self.peek(1) == ('id', 'union') and self.lang == 'c':
                self.eat('(')
                self.eat()
                un = self.eat()[1]
                self.eat(')')
                self.eat('{')
                e = self.expr()
                self.eat('}')
                return ('union_lit', un, e)
            self.eat('(')
            e = self.expr()
            self.eat(')')
            return ('paren', e)
        if v == '{' and self.lang == 'rust':
            return self.rust_block()
        raise Unsupported('unexpected token %r in %r' % (v, self.text))

    def rust_match(self):
        self.eat()
        scrut = self.binary(0)
        self.eat('{')
        arms = {}
        while not self.at('}'):
            pat = self.eat()[1]
            self.eat('=>')
            arms[pat] = self.expr()
            if self.at(','):
                self.eat(',')
        self.eat('}')
        if set(arms) != {'true', 'false'}:
            raise Unsupported('match with arms %s' % list(arms))
        return ('ite', scrut, arms['true'], arms['false'])

    def if_expr(self):
        self.eat()
        c = self.binary(0)
        self.eat('{')
        a = self.expr()
        self.eat('}')
        self.eat()  # else
        self.eat('{')
        b = self.expr()
        self.eat('}')
        return ('ite', c, a, b)

    def rust_block(self):
        # the only block the Rust emitter produces: store a pointer into a fresh MaybeUninit<u64>
        toks = [t[1] for t in self.toks[self.i:]]
        want = tokenize('{ let mut t = ::core::mem::MaybeUninit::<u64>::uninit(); t.as_mut_ptr().cast::<*mut u8>().write(')
        head = [t[1] for t in want]
        if toks[:len(head)] != head:
            raise Unsupported('unknown Rust block expression in %r' % self.text)
        self.i += len(head)
        e = self.expr()
        tail = [t[1] for t in tokenize('); t }')]
        if [t[1] for t in self.toks[self.i:self.i + len(tail)]] != tail:
            raise Unsupported('unknown Rust block expression tail in %r' % self.text)
        self.i += len(tail)
        return ('call', '__ptr_into_fresh_maybeuninit_u64', [e], None)


# ---------------------------------------------------------------------------------------------- evaluation
class Eval:
    def __init__(self, lang, p, env, extra=None):
        self.lang, self.p = lang, p
        self.types = types_for(lang, p)
        self.env = env                  # name -> Val
        self.fresh = []                 # [(name, width)] unconstrained values (uninitialised bits)
        self.extra = extra or {}        # e.g. {'unions': {...}, 'ffi': {...}}

    def ty(self, n):
        n2 = n if n in self.types else n.replace(' *', '*') if n.replace(' *', '*') in self.types else n.replace('*', ' *')
        if n2 not in self.types:
            raise Unsupported('unknown type %r in %s' % (n, self.lang))
        return self.types[n2]

    def num(self, text, like=None):
        t = text.replace('_', '')
        m = re.match(r'(0[xX][0-9A-Fa-f]+|\d+)', t)
        n = int(m.group(1), 0)
        ty = like
        if ty is None:
            ty = {'rust': 'i32', 'c': 'int', 'cpp': 'int', 'csharp': 'int', 'd': 'int', 'go': 'int32', 'moonbit': 'Int'}[self.lang]
            ty = self.ty(ty)
        return Val(bv(n, ty.width), ty)

    def ev(self, e, want=None):
        k = e[0]
        if k == 'num':
            return self.num(e[1], want)
        if k == 'name':
            n = e[1]
            if n in self.env:
                return self.env[n]
            if n in ('true', 'false'):
                return Val('#b1' if n == 'true' else '#b0', self.ty({'moonbit': 'Bool'}.get(self.lang, 'bool')))
            if n == 'uint.MaxValue' and self.lang == 'csharp':
                return Val(bv(0xffffffff, 32), self.ty('uint'))
            raise Unsupported('unknown name %r' % n)
        if k == 'paren':
            return self.ev(e[1], want)
        if k == 'cast':
            return conv(self.ev(e[2]), self.ty(e[1]))
        if k == 'un':
            v = self.ev(e[2], want)
            if e[1] == '-':
                return Val('(bvneg %s)' % v.smt, v.ty)
            if e[1] == '~':
                return Val('(bvnot %s)' % v.smt, v.ty)
            if e[1] == '!':
                if v.ty.kind != 'bool':
                    return Val('(bvnot %s)' % v.smt, v.ty) if self.lang == 'rust' else self._unsup('! on ' + str(v.ty))
                return Val('(bvnot %s)' % v.smt, v.ty)
        if k == 'bin':
            return self.binop(e[1], e[2], e[3])
        if k == 'ite':
            c = self.ev(e[1])
            if c.ty.kind != 'bool':
                if self.lang in ('c', 'cpp'):
                    c = conv(c, self.ty('bool'))
                else:
                    raise Unsupported('condition of type %s' % c.ty)
            a = self.ev(e[2], want)
            b = self.ev(e[3], a.ty)
            if a.ty.width != b.ty.width:
                raise Unsupported('branches of different types')
            return Val('(ite (= %s #b1) %s %s)' % (c.smt, a.smt, b.smt), a.ty)
        if k == 'union_lit':
            un = (self.extra.get('unions') or {}).get(e[1])
            if not un:
                raise Unsupported('C union %s is not defined in the backend source' % e[1])
            a = conv_or_reint(self.ev(e[2]), self.ty(un[0]))
            return ('union', a, un)
        if k == 'field':
            base = self.ev(e[1])
            if isinstance(base, tuple) and base[0] == 'union':
                _, a, un = base
                if e[2] == 'a':
                    return a
                if e[2] == 'b':
                    return reinterpret(a, self.ty(un[1]))
            raise Unsupported('field access .%s' % e[2])
        if k == 'call':
            return self.call(e[1], e[2], e[3])
        if k == 'method':
            return self.method(self.ev(e[1]), e[2], e[3], e[4])
        raise Unsupported('expression form %s' % k)

    def _unsup(self, m):
        raise Unsupported(m)

    def binop(self, op, ea, eb):
        a = self.ev(ea)
        b = self.ev(eb, a.ty if eb[0] == 'num' else None)
        if ea[0] == 'num' and eb[0] != 'num':
            a = self.ev(ea, b.ty)
        if isinstance(a, tuple) or isinstance(b, tuple):
            raise Unsupported('operator on aggregate')
        # C-family integer promotion: operands narrower than int are promoted to int
        if self.lang in ('c', 'cpp', 'csharp', 'd') and a.ty.kind in ('int', 'char', 'bool') and b.ty.kind in ('int', 'char', 'bool'):
            it = self.ty('int')
            if a.ty.width < 32:
                a = conv(a, it)
            if b.ty.width < 32:
                b = conv(b, it)
            if a.ty.width != b.ty.width:
                w = a.ty if a.ty.width > b.ty.width else b.ty
                a, b = conv(a, w), conv(b, w)
            elif a.ty.signed != b.ty.signed:
                u = a.ty if not a.ty.signed else b.ty
                a, b = Val(a.smt, u), Val(b.smt, u)
        if a.ty.width != b.ty.width or a.ty.kind == 'float':
            raise Unsupported('operator %s on %s and %s' % (op, a.ty, b.ty))
        booly = self.ty({'moonbit': 'Bool'}.get(self.lang, 'bool'))
        if op in ('==', '!='):
            t = '(ite (= %s %s) #b1 #b0)' % (a.smt, b.smt)
            return Val(t if op == '==' else '(bvnot %s)' % t, booly)
        f = {'+': 'bvadd', '-': 'bvsub', '*': 'bvmul', '&': 'bvand', '|': 'bvor', '^': 'bvxor', '<<': 'bvshl',
             '&&': 'bvand', '||': 'bvor'}.get(op)
        if op == '>>':
            f = 'bvashr' if a.ty.signed else 'bvlshr'
        if op in ('&&', '||') and a.ty.kind != 'bool':
            raise Unsupported(op + ' on non-bool')
        if not f:
            raise Unsupported('operator ' + op)
        return Val('(%s %s %s)' % (f, a.smt, b.smt), a.ty)

    # ---- named functions
    def call(self, name, args, gen):
        L = self.lang
        if name == '__ptr_into_fresh_maybeuninit_u64':
            v = self.ev(args[0])
            if v.ty.kind != 'ptr':
                raise Unsupported('pointer write of a %s' % v.ty)
            if self.p == 64:
                return Val(v.smt, self.ty('::core::mem::MaybeUninit::<u64>'))
            nm = 'uninit%d' % len(self.fresh)
            self.fresh.append((nm, 64 - self.p))
            return Val('(concat %s %s)' % (nm, v.smt), self.ty('::core::mem::MaybeUninit::<u64>'))
        # function-style conversion T(e)
        if gen is None and len(args) == 1 and L in ('go', 'cpp', 'c', 'd') and name in self.types:
            return conv(self.ev(args[0]), self.ty(name))
        a = [self.ev(x) for x in args]
        if L == 'rust':
            m = re.match(r'^(i8|u8|i16|u16|i32|u32|i64|u64|usize)::from$', name)
            if m and len(a) == 1:
                to = self.ty(m.group(1))
                if a[0].ty.kind not in ('int', 'bool', 'char') or a[0].ty.width > to.width or (a[0].ty.width == to.width and a[0].ty.signed != to.signed and a[0].ty.kind == 'int'):
                    raise Unsupported('%s of %s is not a lossless From' % (name, a[0].ty))
                return conv(a[0], to)
            if name in ('f32::from_bits', 'f64::from_bits') and len(a) == 1:
                src = self.ty('u32' if name.startswith('f32') else 'u64')
                if a[0].ty.name != src.name:
                    raise Unsupported('%s applied to %s' % (name, a[0].ty))
                return reinterpret(a[0], self.ty(name[:3]))
            if name == '::core::mem::MaybeUninit::new' and len(a) == 1 and a[0].ty.name == 'u64':
                return Val(a[0].smt, self.ty('::core::mem::MaybeUninit::<u64>'))
            if name in self.extra.get('rust_fns', {}):
                return self.extra['rust_fns'][name](self, a)
        if L == 'cpp' and name == 'std::bit_cast' and gen and len(gen) == 2 and len(a) == 1:
            return reinterpret(conv_or_reint(a[0], self.ty(gen[1])), self.ty(gen[0]))
        if L == 'csharp':
            n = name.replace('global::', '')
            tab = {'System.BitConverter.SingleToInt32Bits': ('float', 'int'), 'System.BitConverter.Int32BitsToSingle': ('int', 'float'),
                   'System.BitConverter.DoubleToInt64Bits': ('double', 'long'), 'System.BitConverter.Int64BitsToDouble': ('long', 'double')}
            if n in tab and len(a) == 1:
                src, dst = tab[n]
                if a[0].ty.name != src:
                    raise Unsupported('%s applied to %s (C# has no implicit conversion here)' % (n, a[0].ty))
                return reinterpret(a[0], self.ty(dst))
            if n == 'unchecked' and len(a) == 1:
                return a[0]
        if L == 'go':
            tab = {'math.Float32bits': ('float32', 'uint32'), 'math.Float32frombits': ('uint32', 'float32'),
                   'math.Float64bits': ('float64', 'uint64'), 'math.Float64frombits': ('uint64', 'float64')}
            if name in tab and len(a) == 1:
                src, dst = tab[name]
                if a[0].ty.name != src:
                    raise Unsupported('%s applied to %s' % (name, a[0].ty))
                return reinterpret(a[0], self.ty(dst))
        if L == 'moonbit':
            if name in ('Int::to_int64', 'Int64::to_int', 'Int::unsafe_to_char') and len(a) == 1:
                recv = self.ty(name.split('::')[0])
                if a[0].ty.name != recv.name:
                    raise Unsupported('%s applied to %s' % (name, a[0].ty))
                return self.method(a[0], name.split('::')[1], [], None)
            ffi = self.extra.get('ffi', {})
            if name in ffi and len(a) == 1 and a[0].ty.name == 'Int':
                w = ffi[name]
                return Val(ext(ext(a[0].smt, 32, w, False), w, 32, True), self.ty('Int'))
        raise Unsupported('unknown function %s(%s) in %s' % (name, ', '.join(str(x.ty) for x in a), L))

    def method(self, recv, name, args, gen):
        L = self.lang
        if isinstance(recv, tuple):
            raise Unsupported('method on aggregate')
        t = recv.ty
        a = [self.ev(x, t if x[0] == 'num' else None) for x in args]
        if L == 'rust':
            if name == 'to_bits' and t.kind == 'float' and not a:
                return reinterpret(recv, self.ty('u32' if t.width == 32 else 'u64'))
            if name == 'assume_init' and t.kind == 'mu64':
                return Val(recv.smt, self.ty('u64'))
            if name == 'as_ptr' and t.kind == 'mu64':
                return Val(recv.smt, Ty('*const u64 (into the MaybeUninit)', 'mu64ptr', 64))
            if name == 'cast' and t.kind == 'mu64ptr' and gen == ['*mut u8']:
                return Val(recv.smt, Ty('*const *mut u8 (into the MaybeUninit)', 'mu64ptrp', 64))
            if name == 'read' and t.kind == 'mu64ptrp':
                return Val(ext(recv.smt, 64, self.p, False), self.ty('*mut u8'))   # little-endian: the first p/8 bytes
        if L == 'd' and name == 'reinterpretCast' and gen:
            return reinterpret(recv, self.ty(gen[0]))
        if L == 'moonbit' and not a:
            T = self.ty
            table = {
                ('Int', 'reinterpret_as_float'): lambda: reinterpret(recv, T('Float')),
                ('Float', 'reinterpret_as_int'): lambda: reinterpret(recv, T('Int')),
                ('UInt', 'reinterpret_as_int'): lambda: reinterpret(recv, T('Int')),
                ('Int', 'reinterpret_as_uint'): lambda: reinterpret(recv, T('UInt')),
                ('Int64', 'reinterpret_as_double'): lambda: reinterpret(recv, T('Double')),
                ('Double', 'reinterpret_as_int64'): lambda: reinterpret(recv, T('Int64')),
                ('UInt64', 'reinterpret_as_int64'): lambda: reinterpret(recv, T('Int64')),
                ('Int64', 'reinterpret_as_uint64'): lambda: reinterpret(recv, T('UInt64')),
                ('Int', 'to_int64'): lambda: conv(recv, T('Int64')),
                ('Int64', 'to_int'): lambda: conv(recv, T('Int')),
                ('Byte', 'to_int'): lambda: conv(recv, T('Int')),
                ('Char', 'to_int'): lambda: conv(recv, T('Int')),
                ('UInt', 'to_int'): lambda: reinterpret(recv, T('Int')),
                ('Int', 'to_byte'): lambda: conv(recv, T('Byte')),
                ('Int', 'unsafe_to_char'): lambda: reinterpret(recv, T('Char')),
            }
            f = table.get((t.name, name))
            if f:
                return f()
        if L == 'moonbit' and name == 'land' and len(a) == 1 and t.kind == 'int':
            return Val('(bvand %s %s)' % (recv.smt, conv(a[0], t).smt), t)
        raise Unsupported('unknown method (%s).%s(%s) in %s' % (t, name, ', '.join(str(x.ty) for x in a), L))


def conv_or_reint(v, to):
    """implicit conversion on initialisation (C/C++): value conversion between integer types; same-type floats pass"""
    if isinstance(v, tuple):
        raise Unsupported('aggregate operand')
    if v.ty.kind == 'float' or to.kind == 'float':
        if v.ty.kind == to.kind and v.ty.width == to.width:
            return Val(v.smt, to)
        if v.ty.kind == 'float' and to.kind == 'float':
            return conv(v, to)   # float -> double promotion / double -> float rounding
        raise Unsupported('implicit conversion %s -> %s is a value conversion between float and integer' % (v.ty, to))
    return conv(v, to)


def translate(lang, p, text, env, extra=None):
    """returns (Val, fresh_vars) for the emitted expression `text` with free variables bound by env"""
    ev = Eval(lang, p, env, extra)
    ast = Parser(lang, text, ev.types).parse()
    RUST_FLOAT_AS_INT[0] = (lang == 'rust')
    try:
        v = ev.ev(ast)
    finally:
        RUST_FLOAT_AS_INT[0] = False
    if isinstance(v, tuple):
        raise Unsupported('expression evaluates to an aggregate')
    return v, ev.fresh


# ---------------------------------------------------------------------------------------------- solver
def z3_check(decls, negated_goal, timeout_s=60):
    """decls: [(name,width)], negated_goal: SMT bool term.  returns ('unsat',None) | ('sat',{name:int}) | ('unknown',msg)"""
    lines = ['(set-logic ALL)' if 'fp.' in negated_goal or 'to_fp' in negated_goal else '(set-logic QF_BV)']
    for n, w in decls:
        lines.append('(declare-const %s (_ BitVec %d))' % (n, w))
    lines.append('(assert %s)' % negated_goal)
    lines.append('(check-sat)')
    lines.append('(get-model)')
    q = '\n'.join(lines) + '\n'
    try:
        p = subprocess.run(['z3', '-in', '-T:%d' % timeout_s], input=q, stdout=subprocess.PIPE, stderr=subprocess.PIPE, text=True, timeout=timeout_s + 10)
    except Exception as e:
        return 'unknown', repr(e), q
    out = p.stdout
    first = out.strip().splitlines()[0] if out.strip() else ''
    if first == 'unsat':
        return 'unsat', None, q
    if first == 'sat':
        model = {}
        for m in re.finditer(r'\(define-fun\s+(\S+)\s+\(\)\s+\(_ BitVec \d+\)\s+(#x[0-9a-fA-F]+|#b[01]+)\)', out):
            v = m.group(2)
            model[m.group(1)] = int(v[2:], 16) if v[1] == 'x' else int(v[2:], 2)
        return 'sat', model, q
    return 'unknown', out[:300] + p.stderr[:300], q
