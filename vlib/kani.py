"""Kani route: run in-crate contract harnesses (mounted by the cfg hook) on the real package."""
import contextlib
import fcntl
import os
import re
import time

from .common import BUILD, BUILD_ROOT, GUARD, NCPU, REPO, VERIF, Obligation, Undecided, offline_env, run, scan_trusted


class Harness:
    def __init__(self, name, oid, function, kind='property', bounded=None, what=''):
        self.name = name          # harness fn name
        self.oid = oid            # obligation id
        self.function = function  # real function(s) under contract
        self.kind = kind
        self.bounded = bounded    # None = loop-free / complete; else the stated bound
        self.what = what


def _parse(out):
    """returns {harness_short_name: {'status':..., 'time':..., 'lines':[...], 'checks': n, 'covers': (sat,total)}}"""
    res = {}
    cur = {}   # thread -> harness
    last_th = '0'
    for raw in out.splitlines():
        m = re.match(r'^(?:Thread (\d+): ?)?(.*)$', raw)
        th, line = m.group(1), m.group(2)
        if th is None:
            th = last_th      # result blocks are printed as one multi-line message after a `Thread N:` prefix
        else:
            last_th = th
        mm = re.match(r'Checking harness (\S+?)\.\.\.', line)
        if mm:
            full = mm.group(1)
            cur[th] = full
            res[full] = {'status': 'unknown', 'time': 0.0, 'lines': [], 'checks': 0, 'failed': 0, 'covers': None, 'stubs': 0}
            continue
        hname = cur.get(th)
        if not hname:
            continue
        r = res[hname]
        if line.startswith('aborting path'):
            continue
        r['lines'].append(line)
        if '- Stub:' in line:
            r['stubs'] += 1
        mm = re.search(r'\*\* (\d+) of (\d+) failed', line)
        if mm:
            r['failed'], r['checks'] = int(mm.group(1)), int(mm.group(2))
        mm = re.search(r'\*\* (\d+) of (\d+) cover properties satisfied', line)
        if mm:
            r['covers'] = (int(mm.group(1)), int(mm.group(2)))
        mm = re.search(r'VERIFICATION:- (\w+)', line)
        if mm:
            r['status'] = mm.group(1)
        mm = re.search(r'Verification Time: ([\d.]+)s', line)
        if mm:
            r['time'] = float(mm.group(1))
        if 'CBMC timed out' in line or 'timed out' in line.lower():
            r['status'] = 'TIMEOUT'
    return res


@contextlib.contextmanager
def target_lock(target):
    """Two checks started at the same time share one CARGO_TARGET_DIR per crate; cargo serialises the build but
    Kani's per-harness artifacts are not protected, so whole invocations are serialised per target directory."""
    os.makedirs(BUILD, exist_ok=True)
    f = open(os.path.join(BUILD, target + '.lock'), 'w')
    try:
        fcntl.flock(f, fcntl.LOCK_EX)
        yield
    finally:
        fcntl.flock(f, fcntl.LOCK_UN)
        f.close()


EXTRA_CFG = []   # additional --cfg flags for the next invocations (set by a property module, e.g. C08's generated-code mount)


def cargo_kani(crate_rel, filters, features, target, rep, timeout_each=600, jobs=None, extra=(), exact=False,
               unwind=None, pkg_args=()):
    crate = os.path.join(REPO, crate_rel)
    env = offline_env({'RUSTFLAGS': ' '.join('--cfg ' + c for c in [GUARD] + EXTRA_CFG), 'CARGO_TARGET_DIR': os.path.join(BUILD, target)})
    cmd = ['cargo', 'kani', '-Z', 'stubbing', '-Z', 'function-contracts', '-Z', 'unstable-options',
           '--harness-timeout', '%ds' % timeout_each, '--output-format', 'terse', '-j', str(jobs or NCPU)]
    cmd += list(pkg_args)
    if features is not None:
        cmd += ['--no-default-features', '--features', features]
    if exact:
        cmd += ['--exact']
    for f in filters:
        cmd += ['--harness', f]
    if unwind:
        cmd += ['--default-unwind', str(unwind)]
    cmd += list(extra)
    rep.checker_cmds.append('(cd %s && RUSTFLAGS="--cfg %s" %s)' % (crate, GUARD, ' '.join(cmd)))
    with target_lock(target):
        rc, out, err, secs, to = run(cmd, cwd=crate, env=env, timeout=timeout_each * max(1, len(filters)) + 1800)
    return rc, out + '\n' + err, secs, to


def run_harnesses(rep, crate_rel, harnesses, features, target, timeout_each=600, extra=(), harness_file=None, playback_features=None, jobs=None, guard=True, canary_id='canary.kani'):
    """Runs the given Harness list in one cargo-kani invocation; adds one Obligation per harness."""
    names = [h.name for h in harnesses] + ['verif_canary_must_fail']
    t0 = time.time()
    rc, out, secs, to = cargo_kani(crate_rel, names, features, target, rep, timeout_each, extra=extra, jobs=jobs)
    parsed = _parse(out)
    by_short = {}
    for full, r in parsed.items():
        by_short[full.split('::')[-1]] = (full, r)
    if harness_file and os.path.exists(harness_file):
        for t in scan_trusted(open(harness_file).read(), 'harness ' + os.path.basename(harness_file)):
            rep.trust(t)
    compile_error = None
    if not parsed:
        m = re.search(r'(error(\[E\d+\])?: .*)', out)
        compile_error = out[-3000:]
    obs = []
    for h in harnesses:
        ob = Obligation(h.oid, h.function, h.kind, 'kani/cbmc', bounded=h.bounded)
        if h.name not in by_short:
            ob.status = 'undecided'
            ob.detail = ('harness %s did not run (harness no longer compiles against /repo, or was filtered out): %s'
                         % (h.name, (compile_error or out[-1500:])))
        else:
            full, r = by_short[h.name]
            ob.seconds = r['time']
            if r['status'] == 'SUCCESSFUL':
                if r['checks'] == 0:
                    ob.status = 'undecided'
                    ob.detail = 'vacuous: 0 checks'
                elif r['covers'] is not None and r['covers'][0] != r['covers'][1]:
                    ob.status = 'undecided'
                    ob.detail = 'vacuity guard: only %d of %d cover properties satisfied (an assumption excludes a scenario)\n%s' % (
                        r['covers'][0], r['covers'][1], '\n'.join(l for l in r['lines'] if 'cover' in l.lower())[-1500:])
                else:
                    ob.status = 'discharged'
                    ob.detail = ''
                    ob.extra = {'checks': r['checks'], 'covers': r['covers']}
            elif r['status'] == 'FAILED':
                fl = [l for l in r['lines'] if l.strip()]
                txt = '\n'.join(fl)
                # Only failures of CBMC to finish (unwinding assertions, unsupported constructs) are undecided
                failed_desc = re.findall(r'Failed Checks: (.*)', txt)
                unsupported = [d for d in failed_desc if 'not currently supported' in d or 'unwinding assertion' in d or 'HARNESS-LIMIT' in d]
                real = [d for d in failed_desc if d not in unsupported]
                if not failed_desc:
                    ob.status = 'undecided'
                    ob.detail = 'harness %s: CBMC ended without reporting a failed check (crash / out of memory / killed): %s' % (full, txt[-600:])
                elif failed_desc and not real:
                    ob.status = 'undecided'
                    ob.detail = 'only unwinding / unsupported-construct / harness-limit checks failed: ' + '; '.join(unsupported)[:800]
                else:
                    ob.status = 'failed'
                    ob.detail = 'harness %s FAILED\n%s' % (full, txt[-3000:])
                    ob.failed_checks = real
                    ob.harness = h
            else:
                ob.status = 'undecided'
                ob.detail = 'harness %s: %s (timeout / tool failure)\n%s' % (full, r['status'], '\n'.join(r['lines'])[-800:])
        obs.append(ob)
        rep.add(ob)
    nplay = 0
    for ob in obs:
        if ob.status == 'failed' and nplay < 2 and playback_features is not False:
            nplay += 1
            try:
                playback(rep, ob, crate_rel, features, target, values_only=(playback_features == 'values-only'))
            except Exception as e:   # replay is best effort; the verdict stands without it
                ob.detail += '\n[playback failed: %r]' % e
    can = [r for full, r in parsed.items() if full.endswith('verif_canary_must_fail')]
    ok = bool(can) and can[0]['status'] == 'FAILED'
    rep.add(Obligation(canary_id, 'false assertion must be rejected (run in the same cargo-kani invocation)', 'vacuity', 'kani/cbmc',
                       status='discharged' if ok else 'undecided', seconds=can[0]['time'] if can else 0.0,
                       detail='' if ok else 'kani did not reject the canary harness: ' + out[-400:]))
    rep.extra.setdefault('kani_runs', []).append({
        'crate': crate_rel, 'features': features, 'harnesses': len(harnesses), 'wall_s': round(secs, 1),
        'cbmc_seconds_sum': round(sum(o.seconds for o in obs), 1),
        'checks_sum': sum(getattr(o, 'extra', {}).get('checks', 0) for o in obs)})
    return obs


def canary(rep, crate_rel, features, target):
    """a deliberately false harness must FAIL (guards against a run that proves everything)"""
    rc, out, secs, to = cargo_kani(crate_rel, ['verif_canary_must_fail'], features, target, rep, 120)
    parsed = _parse(out)
    ok = any(r['status'] == 'FAILED' for r in parsed.values())
    rep.add(Obligation('canary.kani', 'false assertion must be rejected', 'vacuity', 'kani/cbmc',
                       status='discharged' if ok else 'undecided', seconds=secs,
                       detail='' if ok else 'kani did not reject the canary: ' + out[-400:]))
    return ok


def playback(rep, ob, crate_rel, features, target, timeout=900, values_only=False, guard=True):
    """Concrete playback of a failed harness: obtain Kani's counterexample values, then re-run the harness body
    natively (cargo test via `cargo kani playback`) against the real code, with the mock host linked as the real
    C symbols declared by the extern_wasm! hook."""
    h = ob.harness
    crate = os.path.join(REPO, crate_rel)
    env = offline_env({'RUSTFLAGS': '--cfg ' + GUARD, 'CARGO_TARGET_DIR': os.path.join(BUILD, target)})
    cmd = ['cargo', 'kani', '-Z', 'stubbing', '-Z', 'function-contracts', '-Z', 'concrete-playback',
           '--concrete-playback=print', '--harness', h.name]
    if features is not None:
        cmd += ['--no-default-features', '--features', features]
    with target_lock(target):
        rc, out, err, secs, to = run(cmd, cwd=crate, env=env, timeout=timeout)
    m = re.search(r'Concrete playback unit test for `([^`]+)`:\s*```\s*\n(.*?)```', out, re.S)
    if not m:
        ob.detail += '\n[concrete playback produced no test (Kani gave no concrete values): %s]' % out[-400:]
        return
    full, test_src = m.group(1), m.group(2)
    vals = re.findall(r'// (\S+)\s*\n\s*vec!\[', test_src)
    ob.replay = {'input': 'kani::any() values in call order: [' + ', '.join(vals) + ']',
                 'harness': '%s (%s)' % (full, getattr(h, 'file', '/verif/harness')),
                 'playback_test': test_src}
    if values_only:
        ob.replay['native_outcome'] = ('not replayed natively: this harness replaces the global allocator by contract stubs, which '
                                       'concrete playback does not apply; the values above are the verifier\'s counterexample')
        return
    pdir = os.path.join(BUILD_ROOT, 'playback')   # mounted by absolute path from harness/async_support.rs
    os.makedirs(pdir, exist_ok=True)
    tname = re.search(r'fn (kani_concrete_playback_\w+)', test_src).group(1)
    with open(os.path.join(pdir, 'tests.rs'), 'w') as f:
        f.write('// generated by vlib/kani.py from `cargo kani --concrete-playback=print`\n')
        f.write('use std::vec;\nuse std::vec::Vec;\nuse crate::%s;\n' % full)
        f.write(test_src)
    env2 = offline_env({'RUSTFLAGS': '--cfg %s --cfg %s_native' % (GUARD, GUARD),
                        'CARGO_TARGET_DIR': os.path.join(BUILD, target + '-playback')})
    cmd2 = ['cargo', 'kani', 'playback', '-Z', 'concrete-playback']
    if features is not None:
        cmd2 += ['--no-default-features', '--features', features]
    cmd2 += ['--', tname]
    with target_lock(target + '-playback'):
        rc2, out2, err2, secs2, to2 = run(cmd2, cwd=crate, env=env2, timeout=timeout)
    txt = out2 + '\n' + err2
    mm = re.search(r'test result: (\w+)\. (\d+) passed; (\d+) failed', txt)
    if mm and int(mm.group(3)) >= 1:
        panic = re.findall(r"panicked at [^\n]*\n[^\n]*", txt)
        ob.replay['native_outcome'] = 'native replay on the real code FAILED as the verifier predicted: ' + (' | '.join(panic)[:700] or 'test failed')
    elif mm and int(mm.group(2)) >= 1:
        ob.replay['native_outcome'] = ('native replay PASSED: the counterexample does not reproduce natively (the failing check is one only '
                                       'the model checker observes, e.g. a memory-safety check or a stub-generated value)')
    else:
        ob.replay['native_outcome'] = 'native replay could not be built/run: ' + txt[-800:]
    ob.replay['replay_cmd'] = '(cd %s && RUSTFLAGS="--cfg %s --cfg %s_native" %s)' % (crate, GUARD, GUARD, ' '.join(cmd2))
