"""Native counterexample search on the real code — used only to turn a failed Verus obligation
(which carries no counterexample) into a replayable input.  It never decides anything by itself."""
import os
from .common import VERIF, BUILD, REPO, run


def search_on_failure(rep, pid, obs):
    failed = [o for o in obs if o.status == 'failed']
    if not failed:
        return
    src = os.path.join(VERIF, 'native', pid + '.rs')
    if not os.path.exists(src):
        return
    d = os.path.join(BUILD, 'native')
    os.makedirs(d, exist_ok=True)
    gen = os.path.join(d, pid + '_gen.rs')
    with open(gen, 'w') as f:
        f.write(open(src).read().replace('@REPO@', REPO))
    exe = os.path.join(d, pid)
    rc, out, err, secs, to = run(['rustc', '--edition', '2021', '-O', '-A', 'warnings', gen, '-o', exe], timeout=300)
    if rc != 0:
        for o in failed:
            o.detail += '\n[native search did not build: %s]' % err[-400:]
        return
    rc, out, err, secs, to = run([exe], timeout=300)
    cex = [l for l in out.splitlines() if l.startswith('COUNTEREXAMPLE')]
    for o in failed:
        if cex:
            o.replay = {'input': cex[0], 'how': 'native bounded search on the real code: rustc %s && %s' % (src, exe),
                        'native_outcome': '\n'.join(cex[:5])}
            o.kind = 'property'
        else:
            o.detail += '\n[native bounded search (%s) found no failing input in %.1fs: %s]' % (src, secs, out.strip()[-200:])
