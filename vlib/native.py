"""Native counterexample search on the real code — used only to turn a failed Verus obligation
(which carries no counterexample) into a replayable input.  It never decides anything by itself."""
import os
import re
from . import rustsrc
from .common import VERIF, BUILD, REPO, run, offline_env


def search_on_failure(rep, pid, obs):
    failed = [o for o in obs if o.status == 'failed']
    if not failed:
        return
    crate = os.path.join(VERIF, 'native', pid)
    if os.path.exists(os.path.join(crate, 'Cargo.toml.in')):
        return _search_crate(rep, pid, crate, failed)
    src = os.path.join(VERIF, 'native', pid + '.rs')
    if not os.path.exists(src):
        return
    d = os.path.join(BUILD, 'native')
    os.makedirs(d, exist_ok=True)
    gen = os.path.join(d, pid + '_gen.rs')
    text = open(src).read().replace('@REPO@', REPO)
    # `//@EXTRACT <path relative to repo> <header regex>` => the item's text, copied verbatim
    def _sub(m):
        it = rustsrc.Source(os.path.join(REPO, m.group(1))).find(m.group(2).strip())
        return it.src[it.hdr:it.close + 1]
    try:
        text = re.sub(r'^//@EXTRACT\s+(\S+)\s+(.+)$', _sub, text, flags=re.M)
    except rustsrc.LostAnchor as e:
        for o in failed:
            o.detail += '\n[native search not possible: %s]' % e
        return
    with open(gen, 'w') as f:
        f.write(text)
    exe = os.path.join(d, pid)
    rc, out, err, secs, to = run(['rustc', '--edition', '2021', '-O', '-A', 'warnings', gen, '-o', exe], timeout=300)
    if rc != 0:
        for o in failed:
            o.detail += '\n[native search did not build: %s]' % err[-400:]
        return
    rc, out, err, secs, to = run([exe], timeout=300)
    _apply(failed, out, secs, 'rustc %s && %s' % (src, exe), src)


def _search_crate(rep, pid, crate, failed):
    import shutil
    d = os.path.join(BUILD, 'native', pid + '-crate')
    if os.path.exists(d):
        shutil.rmtree(d)
    shutil.copytree(crate, d)
    with open(os.path.join(d, 'Cargo.toml'), 'w') as f:
        f.write(open(os.path.join(crate, 'Cargo.toml.in')).read().replace('@REPO@', REPO))
    shutil.copy(os.path.join(REPO, 'Cargo.lock'), os.path.join(d, 'Cargo.lock'))
    env = offline_env({'CARGO_TARGET_DIR': os.path.join(BUILD, 'native-target')})
    rc, out, err, secs, to = run(['cargo', 'run', '--release', '--offline', '-q'], cwd=d, env=env, timeout=900)
    if rc != 0:
        for o in failed:
            o.detail += '\n[native search did not build/run: %s]' % err[-400:]
        return
    _apply(failed, out, secs, 'cargo run --release (crate %s, path dependency on the real wit-bindgen-core)' % crate, crate)


def _apply(failed, out, secs, how, src):
    cex = [l for l in out.splitlines() if l.startswith('COUNTEREXAMPLE')]
    for o in failed:
        if cex:
            o.replay = {'input': cex[0], 'how': 'native bounded search on the real code: ' + how,
                        'native_outcome': '\n'.join(cex[:5])}
            o.kind = 'property'
        else:
            if o.kind == 'property' and any(x.kind == 'support' and x.function == o.function for x in failed):
                # the proof of this clause leans on a representation invariant / lemma that no longer goes
                # through, and an exhaustive small-scope run of the real code satisfies the clause: the proof
                # strategy does not fit the code any more -> undecided, not an alarm.
                o.status = 'undecided'
                o.detail = ('property clause failed together with a support obligation of the same function and the native '
                            'small-scope search found no failing input: proof no longer fits the code\n') + o.detail
            o.detail += '\n[native bounded search (%s) found no failing input in %.1fs: %s]' % (src, secs, out.strip()[-200:])
