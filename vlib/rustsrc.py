"""Minimal Rust lexical scanner: enough to copy items verbatim by brace matching.

Nothing here parses Rust; it only distinguishes code from comments / string /
char literals so that brackets can be matched and keywords located.  Every
function raises LostAnchor when the thing asked for is not found exactly once:
the caller turns that into exit 2 (undecided), never into an alarm.
"""
import re
import hashlib


class LostAnchor(Exception):
    pass


def code_mask(text):
    """mask[i] is True iff text[i] is code (not inside comment/string/char)."""
    n = len(text)
    mask = [True] * n
    i = 0
    while i < n:
        c = text[i]
        if c == '/' and i + 1 < n and text[i + 1] == '/':
            j = text.find('\n', i)
            if j < 0:
                j = n
            for k in range(i, j):
                mask[k] = False
            i = j
        elif c == '/' and i + 1 < n and text[i + 1] == '*':
            depth = 1
            j = i + 2
            while j < n and depth > 0:
                if text.startswith('/*', j):
                    depth += 1
                    j += 2
                elif text.startswith('*/', j):
                    depth -= 1
                    j += 2
                else:
                    j += 1
            for k in range(i, j):
                mask[k] = False
            i = j
        elif c == '"' or (c in 'rb' and re.match(r'(?:b?r#*"|b")', text[i:i + 12]) and
                          (i == 0 or not (text[i - 1].isalnum() or text[i - 1] == '_'))):
            m = re.match(r'(b?r)(#*)"', text[i:])
            if m:
                hashes = m.group(2)
                start = i + m.end()
                endtok = '"' + hashes
                j = text.find(endtok, start)
                if j < 0:
                    j = n
                else:
                    j += len(endtok)
            else:
                if c == 'b':
                    start = i + 2
                else:
                    start = i + 1
                j = start
                while j < n and text[j] != '"':
                    if text[j] == '\\':
                        j += 1
                    j += 1
                j += 1
            # keep the delimiters themselves as non-code too
            for k in range(i, min(j, n)):
                mask[k] = False
            i = j
        elif c == "'":
            # char literal or lifetime
            m = re.match(r"'(\\.[^']*|[^\\'])'", text[i:])
            if m:
                for k in range(i, i + m.end()):
                    mask[k] = False
                i += m.end()
            else:
                i += 1
        else:
            i += 1
    return mask


OPEN = {'{': '}', '(': ')', '[': ']'}


def match_close(text, mask, i):
    """index of the bracket closing the one opened at i"""
    assert text[i] in OPEN and mask[i]
    stack = []
    n = len(text)
    j = i
    while j < n:
        if mask[j]:
            c = text[j]
            if c in OPEN:
                stack.append(OPEN[c])
            elif c in ')]}':
                if not stack or stack[-1] != c:
                    raise LostAnchor('unbalanced bracket at offset %d' % j)
                stack.pop()
                if not stack:
                    return j
        j += 1
    raise LostAnchor('unterminated bracket at offset %d' % i)


def code_finditer(pattern, text, mask, start=0, end=None):
    end = len(text) if end is None else end
    for m in re.finditer(pattern, text[:end]):
        if m.start() >= start and mask[m.start()]:
            yield m


def line_start(text, i):
    j = text.rfind('\n', 0, i)
    return j + 1


def attr_start(text, i):
    """walk back from the line containing i over contiguous attribute / doc lines"""
    s = line_start(text, i)
    while s > 0:
        p = line_start(text, s - 1)
        line = text[p:s].strip()
        if line.startswith('#[') or line.startswith('///') or line.startswith('//!'):
            s = p
        else:
            break
    return s


class Item:
    def __init__(self, path, text, mask, start, hdr, open_, close):
        self.path = path
        self.start = start      # start of attributes
        self.hdr = hdr          # start of the header line (after attrs)
        self.open = open_       # index of '{' (or ';' when there is no body)
        self.close = close      # index of matching '}' (== open for ';')
        self.src = text
        self.mask = mask

    @property
    def text(self):
        return self.src[self.start:self.close + 1]

    @property
    def attrs(self):
        return self.src[self.start:self.hdr]

    @property
    def header(self):
        return self.src[self.hdr:self.open]

    @property
    def body(self):
        return self.src[self.open:self.close + 1]

    @property
    def line(self):
        return self.src.count('\n', 0, self.hdr) + 1

    def sha(self):
        return hashlib.sha256(self.text.encode()).hexdigest()[:16]


class Source:
    def __init__(self, path, text=None):
        self.path = path
        self.text = open(path).read() if text is None else text
        self.mask = code_mask(self.text)

    def find(self, header_re, within=None, nth=None):
        """Find the item whose header matches header_re (regex on code).
        within: an Item restricting the search to its body."""
        lo, hi = (0, len(self.text)) if within is None else (within.open + 1, within.close)
        ms = list(code_finditer(header_re, self.text, self.mask, lo, hi))
        if nth is not None:
            if nth >= len(ms):
                raise LostAnchor('%s: match #%d of /%s/ not found' % (self.path, nth, header_re))
            ms = [ms[nth]]
        if len(ms) != 1:
            raise LostAnchor('%s: /%s/ matched %d times (need exactly 1)' % (self.path, header_re, len(ms)))
        m = ms[0]
        hdr = line_start(self.text, m.start())
        # skip leading whitespace
        while self.text[hdr] in ' \t':
            hdr += 1
        # first '{' or ';' in code at bracket depth 0 after the match
        j = m.end()
        depth = 0
        n = len(self.text)
        while j < n:
            if self.mask[j]:
                c = self.text[j]
                if c in '([':
                    depth += 1
                elif c in ')]':
                    depth -= 1
                elif c == '{' and depth == 0:
                    close = match_close(self.text, self.mask, j)
                    return Item(self.path, self.text, self.mask, attr_start(self.text, hdr), hdr, j, close)
                elif c == ';' and depth == 0:
                    return Item(self.path, self.text, self.mask, attr_start(self.text, hdr), hdr, j, j)
            j += 1
        raise LostAnchor('%s: no body for /%s/' % (self.path, header_re))

    def fn(self, name, within=None, nth=None):
        return self.find(r'\bfn\s+%s\b' % re.escape(name), within, nth)

    def impl(self, header_re):
        return self.find(r'\bimpl\b[^{;]*?' + header_re, None)


def loops_in(body_text):
    """offsets (keyword_start, brace_open) of every loop in body_text, in textual order"""
    mask = code_mask(body_text)
    out = []
    for m in code_finditer(r'\b(while|loop|for)\b', body_text, mask):
        # `for` inside `impl X for Y` / HRTB can't occur in a fn body except `for<'a>`
        if m.group(1) == 'for' and body_text[m.end():m.end() + 1] == '<':
            continue
        j = m.end()
        depth = 0
        while j < len(body_text):
            if mask[j]:
                c = body_text[j]
                if c in '([':
                    depth += 1
                elif c in ')]':
                    depth -= 1
                elif c == '{' and depth == 0:
                    break
            j += 1
        else:
            raise LostAnchor('loop without body')
        out.append((m.start(), j))
    return out


def replace_macro_calls(text, macro, replacement_fn):
    """replace every `macro!( ... )` in code position; replacement_fn(args_text, k)->str.
    returns (new_text, [(before, after)])"""
    log = []
    k = 0
    while True:
        mask = code_mask(text)
        ms = list(code_finditer(r'\b%s!\s*\(' % re.escape(macro), text, mask))
        if not ms:
            return text, log
        m = ms[0]
        op = m.end() - 1
        cl = match_close(text, mask, op)
        before = text[m.start():cl + 1]
        after = replacement_fn(text[op + 1:cl], k)
        log.append((before, after))
        text = text[:m.start()] + after + text[cl + 1:]
        k += 1


def desugar_for_enumerate(body_text, invariant_text=''):
    """rule 5a: `for (i, x) in V.iter().enumerate() { B }` ->
    `let mut i = 0; while i < V.len() <inv> { let x = &V[i]; B'; i += 1; }`
    with `continue;` in B rewritten to `{ i += 1; continue; }`.  Exactly one such
    loop must exist and it must not contain a nested loop."""
    mask = code_mask(body_text)
    ms = list(code_finditer(r'\bfor\s*\(\s*(\w+)\s*,\s*(\w+)\s*\)\s+in\s+([\w\.]+?)\.iter\(\)\.enumerate\(\)\s*\{',
                            body_text, mask))
    if len(ms) != 1:
        raise LostAnchor('rule 5a: expected exactly one `for (i, x) in V.iter().enumerate()` loop, found %d' % len(ms))
    m = ms[0]
    i, x, v = m.group(1), m.group(2), m.group(3)
    op = m.end() - 1
    cl = match_close(body_text, mask, op)
    inner = body_text[op + 1:cl]
    if loops_in(inner):
        raise LostAnchor('rule 5a: nested loop inside the enumerate loop is not supported')
    imask = code_mask(inner)
    out = []
    last = 0
    for c in code_finditer(r'\bcontinue\s*;', inner, imask):
        out.append(inner[last:c.start()])
        out.append('{ %s += 1; continue; }' % i)
        last = c.end()
    out.append(inner[last:])
    inner2 = ''.join(out)
    before = body_text[m.start():op + 1]
    new_hdr = 'let mut %s = 0;\n        while %s < %s.len()\n%s        {\n            let %s = &%s[%s];' % (
        i, i, v, invariant_text, x, v, i)
    new = body_text[:m.start()] + new_hdr + inner2 + '    %s += 1;\n        }' % i + body_text[cl + 1:]
    return new, (before, new_hdr.replace(invariant_text, ' /*invariant*/ '))
