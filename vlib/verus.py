"""Verus route: assemble one file from verbatim-extracted items + spliced contracts, run, attribute errors."""
import json
import os
import re
import time

from . import rustsrc
from .common import BUILD, Obligation, Undecided, run, scan_trusted
from .rustsrc import LostAnchor


class Clause:
    def __init__(self, cid, text, kind='property'):
        self.id = cid
        self.text = text.strip().rstrip(',')
        self.kind = kind


class Raw:
    """hand-written Verus text (spec functions, lemmas, shims, trusted axioms)"""
    def __init__(self, text, label='spec'):
        self.text = text
        self.label = label


class Copy:
    """an item copied verbatim (attributes/doc comments dropped unless keep_attrs)"""
    def __init__(self, item, keep_attrs=(), subs=(), prefix=''):
        self.item = item
        self.keep_attrs = keep_attrs
        self.subs = subs          # [(regex, repl, why)] applied to the copied text, each logged
        self.prefix = prefix


class Fn:
    """a function copied verbatim with contract clauses spliced at anchors"""
    def __init__(self, item, name, ret=None, requires=(), ensures=(), decreases=None, attrs=(),
                 at_start='', loops=None, inserts=(), subs=(), hoist_format=True, enumerate_rule=None,
                 vis=None, macros=()):
        self.item = item
        self.name = name              # display name, e.g. Ns::insert
        self.ret = ret                # name for the return value
        self.requires = list(requires)
        self.ensures = list(ensures)
        self.decreases = decreases
        self.attrs = attrs
        self.at_start = at_start
        self.loops = loops or {}      # ordinal (1-based) -> {'invariant': [Clause], 'decreases': str}
        self.inserts = inserts        # [(anchor_substring, 'after'|'before', text)]
        self.subs = subs
        self.hoist_format = hoist_format
        self.enumerate_rule = enumerate_rule   # loop spec dict for the loop produced by rule 5a
        self.macros = macros          # [(macro_name, replacement_text)] e.g. ('bail', 'return Err(opaque_error())')


class Unit:
    def __init__(self, name, report):
        self.name = name
        self.report = report
        self.chunks = []      # (text, label)   label: None | ('clause', fn, Clause) | ('code', fn, path, line0)
        self.fns = []
        # proof-carrying anchors (a loop to hang an invariant on, a statement to put a ghost line next to) that
        # were not found in the current text.  The function is still verified against its pre/postconditions
        # without them; a failure is then only reported as a violation when a failing input is found natively.
        self.anchor_lost = []

    def emit(self, text, label=None):
        if not text.endswith('\n'):
            text += '\n'
        self.chunks.append((text, label))

    # ------------------------------------------------------------------ assembly
    def add(self, part):
        rep = self.report
        if isinstance(part, Raw):
            self.emit(part.text, None)
        elif isinstance(part, Copy):
            it = part.item
            text = it.src[it.hdr:it.close + 1]
            attrs = ''.join(l + '\n' for l in it.attrs.splitlines()
                            if any(l.strip().startswith(k) for k in part.keep_attrs))
            for pat, repl, why in part.subs:
                new, n = re.subn(pat, repl, text)
                if n == 0:
                    raise LostAnchor('rewrite /%s/ (%s) matched nothing in %s' % (pat, why, it.path))
                rep.rewrites.append({'where': '%s:%d' % (it.path, it.line), 'rule': why, 'pattern': pat, 'replacement': repl, 'count': n})
                text = new
            rep.functions.append('%s:%d item `%s` sha256/16=%s (verbatim copy)' % (
                it.path, it.line, it.header.strip().split('\n')[0][:60], it.sha()))
            self.emit(part.prefix + attrs + text, ('code', it.header.strip()[:40], it.path, it.line))
        elif isinstance(part, Fn):
            self._add_fn(part)
        else:
            raise TypeError(part)

    def _add_fn(self, f):
        rep = self.report
        it = f.item
        sig = it.header.rstrip()
        body = it.body
        where = '%s:%d' % (it.path, it.line)
        if re.search(r'\bwhere\b', sig):
            raise LostAnchor('%s: where-clause in signature of %s not supported by the splicer' % (where, f.name))
        if f.ret:
            # name the return value: `-> T` => `-> (ret: T)` (top level arrow after the parameter list)
            mask = rustsrc.code_mask(sig)
            po = sig.index('(')
            pc = rustsrc.match_close(sig, mask, po)
            m = re.search(r'->\s*(.+)$', sig[pc:], re.S)
            if not m:
                raise LostAnchor('%s: no return type to name in %s' % (where, f.name))
            sig = sig[:pc] + sig[pc:][:m.start()] + '-> (%s: %s)' % (f.ret, m.group(1).strip())
        # ---- body rewrites (each logged)
        for pat, repl, why in f.subs:
            new, n = re.subn(pat, repl, body)
            if n == 0:
                raise LostAnchor('%s: rewrite /%s/ (%s) matched nothing' % (where, pat, why))
            rep.rewrites.append({'where': where, 'rule': why, 'pattern': pat, 'replacement': repl, 'count': n})
            body = new
        if f.hoist_format:
            body, log = rustsrc.replace_macro_calls(body, 'format', lambda a, k: 'opaque_string()')
            for b, a in log:
                rep.rewrites.append({'where': where, 'rule': '2: format!(..) hoisted to an external_body fn returning an arbitrary String', 'before': b, 'after': a})
        for mac, replacement in f.macros:
            body, log = rustsrc.replace_macro_calls(body, mac, lambda a, k: replacement)
            for b, a in log:
                rep.rewrites.append({'where': where, 'rule': 'macro %s!(..) replaced' % mac, 'before': b, 'after': a})
        loop_specs = dict(f.loops)
        if f.enumerate_rule is not None:
            MARK = '/*@@ENUM-INV@@*/\n'
            body, (b, a) = rustsrc.desugar_for_enumerate(body, MARK)
            rep.rewrites.append({'where': where, 'rule': '5a: for-enumerate loop desugared to while loop; continue => { i += 1; continue; }', 'before': b, 'after': a})
        # ---- anchored ghost inserts
        for anchor, pos, text in f.inserts:
            lines = body.split('\n')
            hits = [i for i, l in enumerate(lines) if anchor in l]
            if len(hits) != 1:
                self.anchor_lost.append('%s: ghost-line anchor %r found %d times in %s (ghost line not inserted)' % (where, anchor, len(hits), f.name))
                continue
            i = hits[0]
            ghost = '/*@@GHOST*/ ' + text.strip().replace('\n', '\n/*@@GHOST*/ ')
            if pos == 'after':
                lines.insert(i + 1, ghost)
            else:
                lines.insert(i, ghost)
            body = '\n'.join(lines)
        # ---- loops: split body at loop braces, in textual order
        loops = rustsrc.loops_in(body)
        if f.enumerate_rule is not None:
            # the marker sits right before the `{` of the desugared loop
            k = [n for n, (ks, bo) in enumerate(loops) if '/*@@ENUM-INV@@*/' in body[ks:bo]]
            if len(k) != 1:
                raise LostAnchor('%s: rule 5a marker lost' % where)
            loop_specs[k[0] + 1] = f.enumerate_rule
            body = body.replace('/*@@ENUM-INV@@*/\n', '')
            loops = rustsrc.loops_in(body)
        for k in list(loop_specs):
            if k < 1 or k > len(loops):
                self.anchor_lost.append('%s: loop #%d of %s not found (%d loops): its invariant is not spliced' % (where, k, f.name, len(loops)))
                del loop_specs[k]
        if len(loops) != len(f.loops) + (1 if f.enumerate_rule is not None else 0) and not any(f.name in a for a in self.anchor_lost):
            self.anchor_lost.append('%s: %s has %d loops, the contract file expects %d' % (where, f.name, len(loops), len(f.loops)))
        n_unspec = [k + 1 for k in range(len(loops)) if (k + 1) not in loop_specs]
        # ---- emit
        rep.functions.append('%s fn `%s` sha256/16=%s (verbatim body, contract spliced)' % (where, f.name, it.sha()))
        self.fns.append(f)
        f.spliced_loop_specs = loop_specs
        for a in f.attrs:
            self.emit(a)
        self.emit(sig, ('code', f.name, it.path, it.line))
        if f.requires:
            self.emit('    requires')
            for c in f.requires:
                self.emit('        %s,' % c.text, ('clause', f.name, c, 'requires'))
        if f.ensures:
            self.emit('    ensures')
            for c in f.ensures:
                self.emit('        %s,' % c.text, ('clause', f.name, c, 'ensures'))
        if f.decreases:
            self.emit('    decreases %s' % f.decreases, ('clause', f.name, Clause('decreases', f.decreases, 'support'), 'decreases'))
        # body with loop specs
        pos = 0
        first = True
        line0 = it.src.count('\n', 0, it.open) + 1
        for k, (ks, bo) in enumerate(loops, 1):
            seg = body[pos:bo]
            if first:
                seg = seg[0] + ('\n' + f.at_start if f.at_start else '') + seg[1:]
                first = False
            self.emit(seg.rstrip(' '), ('code', f.name, it.path, line0))
            spec = loop_specs.get(k)
            if spec:
                inv = spec.get('invariant', [])
                if inv:
                    self.emit('        invariant')
                    for c in inv:
                        self.emit('            %s,' % c.text, ('clause', f.name, c, 'invariant'))
                if spec.get('decreases'):
                    self.emit('        decreases %s' % spec['decreases'],
                              ('clause', f.name, Clause('loop%d.decreases' % k, spec['decreases'], 'support'), 'decreases'))
            pos = bo
        seg = body[pos:]
        if first:
            seg = seg[0] + ('\n' + f.at_start if f.at_start else '') + seg[1:]
        self.emit(seg, ('code', f.name, it.path, line0))

    # ------------------------------------------------------------------ run
    def text(self):
        return ''.join(t for t, _ in self.chunks)

    def line_labels(self):
        labels = {}
        ln = 1
        for t, lab in self.chunks:
            n = t.count('\n')
            for i in range(n):
                labels[ln + i] = lab
            ln += n
        return labels

    def run(self, tier='quick', rlimit=None, extra_args=()):
        """writes the file, runs Verus, returns list of Obligation (one per clause + one per function body)"""
        rep = self.report
        d = os.path.join(BUILD, 'verus')
        os.makedirs(d, exist_ok=True)
        path = os.path.join(d, self.name + '.rs')
        src = self.text()
        with open(path, 'w') as fh:
            fh.write(src)
        for t in scan_trusted(src, 'verus unit %s' % self.name):
            rep.trust(t)
        cmd = ['verus', path, '--triggers-mode', 'silent', '--output-json', '--time', '--multiple-errors', '8']
        if rlimit:
            cmd += ['--rlimit', str(rlimit)]
        cmd += list(extra_args) + ['--', '--error-format=json']
        rep.checker_cmds.append(' '.join(cmd))
        rc, out, err, secs, to = run(cmd, cwd=d, timeout=900)
        if to:
            raise Undecided('verus timed out on %s' % self.name)
        try:
            j = json.loads(out[out.index('{'):])
        except Exception:
            raise Undecided('verus produced no JSON for %s: %s' % (self.name, (err or out)[-800:]))
        vr = j.get('verification-results', {})
        smt_ms = j.get('times-ms', {}).get('smt', {}).get('total', 0)
        total_ms = j.get('times-ms', {}).get('total', 0)
        diags = []
        for line in err.splitlines():
            line = line.strip()
            if line.startswith('{') and '"$message_type"' in line:
                try:
                    dj = json.loads(line)
                except Exception:
                    continue
                if dj.get('level') == 'error' and dj.get('spans'):
                    diags.append(dj)
        labels = self.line_labels()
        hard_errors = [dj for dj in diags]
        if vr.get('encountered-vir-error') or ('verified' not in vr):
            # not a verification failure: the text is outside what Verus accepts
            msg = '; '.join(dj.get('message', '') + ' @gen-line %s' % (dj['spans'][0]['line_start'] if dj.get('spans') else '?') for dj in diags) or err[-1500:]
            raise Undecided('verus rejected unit %s (unsupported construct / type error, not a proof failure): %s' % (self.name, msg[:1500]))
        # attribute each verification error
        failed_clauses = {}     # (fn, clause id) -> message
        failed_body = {}        # fn -> [messages]
        for dj in hard_errors:
            msg = dj.get('message', '')
            if msg.startswith('aborting due to'):
                continue
            hit = None
            code_fn = None
            for sp in sorted(dj['spans'], key=lambda s: not s.get('is_primary')):
                lab = labels.get(sp['line_start'])
                if lab and lab[0] == 'clause' and hit is None:
                    hit = lab
                if lab and lab[0] == 'code' and code_fn is None:
                    code_fn = (lab[1], lab[2], sp['line_start'], sp['text'][0]['text'].strip() if sp.get('text') else '')
            rendered = dj.get('rendered', msg)
            if hit is not None:
                failed_clauses.setdefault((hit[1], hit[2].id), []).append(rendered)
            elif code_fn is not None:
                failed_body.setdefault(code_fn[0], []).append(rendered)
            else:
                failed_body.setdefault('<spec text>', []).append(rendered)
        obs = []
        nfn = max(1, len(self.fns))
        per = (total_ms / 1000.0) / max(1, sum(len(f.requires) + len(f.ensures) + 1 + sum(len(s.get('invariant', [])) for s in list(f.loops.values()) + ([f.enumerate_rule] if f.enumerate_rule else [])) for f in self.fns))
        for f in self.fns:
            specs = list(getattr(f, 'spliced_loop_specs', {}).values())
            clauses = [(c, 'ensures') for c in f.ensures] + [(c, 'invariant') for s in specs for c in s.get('invariant', [])]
            for c, what in clauses:
                oid = '%s.%s' % (f.name, c.id)
                key = (f.name, c.id)
                ob = Obligation(oid, '%s (%s:%d)' % (f.name, f.item.path, f.item.line), c.kind, 'verus/z3', seconds=per)
                if key in failed_clauses:
                    ob.status = 'failed'
                    ob.detail = '%s clause `%s`\n' % (what, c.text) + '\n'.join(failed_clauses[key])
                else:
                    ob.status = 'discharged'
                obs.append(ob)
            # the body obligation: callee preconditions, overflow, spliced assertions, termination
            ob = Obligation('%s.body' % f.name, '%s (%s:%d)' % (f.name, f.item.path, f.item.line), 'support', 'verus/z3', seconds=per)
            msgs = failed_body.get(f.name, [])
            for (fn, cid), m in failed_clauses.items():
                if fn == f.name and cid in ('decreases',) or (fn == f.name and cid.endswith('.decreases')):
                    msgs = msgs + m
            if msgs:
                ob.status = 'failed'
                ob.detail = 'callee precondition / overflow / spliced assertion / termination failed inside the body\n' + '\n'.join(msgs)
            else:
                ob.status = 'discharged'
            obs.append(ob)
        if '<spec text>' in failed_body:
            obs.append(Obligation('%s.lemmas' % self.name, 'hand-written lemmas', 'support', 'verus/z3', status='failed',
                                  detail='\n'.join(failed_body['<spec text>'])))
        else:
            obs.append(Obligation('%s.lemmas' % self.name, 'hand-written spec functions and lemmas of this unit', 'support', 'verus/z3', status='discharged', seconds=per))
        rep.extra.setdefault('verus_runs', []).append({
            'unit': self.name, 'file': path, 'verified_items': vr.get('verified'), 'errors': vr.get('errors'),
            'smt_ms': smt_ms, 'total_ms': total_ms, 'wall_s': round(secs, 2)})
        if vr.get('verified', 0) == 0 and not diags:
            raise Undecided('verus verified 0 items in %s (vacuous run)' % self.name)
        return obs


def settle_lost_anchors(unit, obs, rep):
    """call after the native counterexample search: when proof-carrying anchors were lost, a failed obligation
    without a failing input on the real code is 'proof no longer fits the code' (undecided), not an alarm; one WITH a
    failing input is a violation whatever happened to the anchors."""
    if not unit.anchor_lost:
        return
    rep.notes.append('anchors lost in the current text: ' + '; '.join(unit.anchor_lost))
    for o in obs:
        if o.status == 'failed' and (o.replay or {}).get('input') is None:
            o.status = 'undecided'
            o.detail = 'proof-carrying anchor lost (%s) and no failing input found natively\n' % '; '.join(unit.anchor_lost) + o.detail


def unspliceable(rep, pid, oid, function, err):
    """The contract could not be spliced onto the current text at all (a rewrite rule or item anchor no longer matches).
    That alone is undecided (exit 2).  But the property-level obligation is still checked for a failing input by the native
    small-scope run of the real code through its public API: a concrete input that contradicts the postcondition is a
    violation with a replay, whatever shape the code has now; without one the obligation stays undecided."""
    from . import native
    ob = Obligation(oid, function, 'property', 'verus/z3', status='failed',
                    detail='the contract could not be spliced onto the current text (%s); postcondition checked against the real code by the native small-scope run instead' % err)
    rep.add(ob)
    native.search_on_failure(rep, pid, [ob])
    if (ob.replay or {}).get('input') is None:
        ob.status = 'undecided'
        ob.detail = 'LostAnchor: %s (no failing input found natively either)\n' % err + ob.detail
    return ob


def canary(report):
    """one deliberately false obligation: Verus must reject it (guards against a verifier that accepts everything)"""
    d = os.path.join(BUILD, 'verus')
    os.makedirs(d, exist_ok=True)
    p = os.path.join(d, 'canary.rs')
    with open(p, 'w') as f:
        f.write('use vstd::prelude::*;\nverus!{\nfn canary(x: u8) -> (r: u8) ensures r == x + 1 { x }\n}\nfn main(){}\n')
    rc, out, err, secs, to = run(['verus', p, '--output-json'], cwd=d, timeout=120)
    ok = False
    try:
        j = json.loads(out[out.index('{'):])
        ok = j['verification-results'].get('errors', 0) >= 1 and not j['verification-results'].get('success')
    except Exception:
        pass
    ob = Obligation('canary.verus', 'false postcondition must be rejected', 'vacuity', 'verus/z3',
                    status='discharged' if ok else 'undecided', seconds=secs,
                    detail='' if ok else 'verus accepted or crashed on a false postcondition: ' + (err or out)[-300:])
    report.add(ob)
    return ok
